"""Source model: loader, symbol/import resolution, class table with static C3 MRO.

Nothing from /repo is imported or executed: every fact comes from ``ast.parse`` of the working tree.
"""
from __future__ import annotations

import ast
import json
import hashlib
import os
import typing


class AnalysisError(Exception):
    """The analysis cannot decide (anchor vanished, unparsable file, floor not reached): exit 2."""


# --------------------------------------------------------------------------------------------------
# small AST utilities
# --------------------------------------------------------------------------------------------------
FUNC = (ast.FunctionDef, ast.AsyncFunctionDef)


def attr_chain(node: ast.AST) -> typing.Optional[list[str]]:
    """``a.b.c`` -> ['a','b','c']; anything else -> None. Calls/subscripts in the chain are not followed."""
    parts: list[str] = []
    while isinstance(node, ast.Attribute):
        parts.append(node.attr)
        node = node.value
    if isinstance(node, ast.Name):
        parts.append(node.id)
        return parts[::-1]
    return None


def dotted(node: ast.AST) -> typing.Optional[str]:
    chain = attr_chain(node)
    return '.'.join(chain) if chain else None


def call_name(call: ast.Call) -> typing.Optional[str]:
    return dotted(call.func)


def call_tail(call: ast.Call) -> str:
    """Last identifier of the callee expression (``super().m()`` -> 'm', ``a.b.c()`` -> 'c', ``f()`` -> 'f')."""
    f = call.func
    if isinstance(f, ast.Attribute):
        return f.attr
    if isinstance(f, ast.Name):
        return f.id
    return ''


def src(node: typing.Optional[ast.AST]) -> str:
    """Normalised source text of a node (ast.unparse: insensitive to layout, quotes, parentheses)."""
    if node is None:
        return ''
    try:
        return ast.unparse(node)
    except Exception:  # pragma: no cover
        return ast.dump(node)


def stmt_key(node: ast.AST) -> str:
    """Finding key text: first line of the normalised statement (docstrings/line numbers play no role)."""
    text = src(node).strip().split('\n')[0]
    return text[:160]


def walk_local(node: ast.AST, include_lambdas: bool = True) -> typing.Iterable[ast.AST]:
    """Walk the body of a function/class without descending into nested defs (and optionally lambdas).
    The (immutable) result is memoised on the node."""
    attr = '_wl' if include_lambdas else '_wl0'
    cached = getattr(node, attr, None)
    if cached is not None:
        return cached
    out = []
    stack = list(ast.iter_child_nodes(node))[::-1]
    while stack:
        cur = stack.pop()
        out.append(cur)
        if isinstance(cur, FUNC + (ast.ClassDef,)):
            continue
        if isinstance(cur, ast.Lambda) and not include_lambdas:
            continue
        stack.extend(list(ast.iter_child_nodes(cur))[::-1])
    try:
        setattr(node, attr, out)
    except AttributeError:
        pass
    return out


def walk_deep(node: ast.AST) -> typing.Iterator[ast.AST]:
    """Walk including nested function bodies (closures), excluding nested classes."""
    stack = list(ast.iter_child_nodes(node))[::-1]
    while stack:
        cur = stack.pop()
        yield cur
        if isinstance(cur, ast.ClassDef):
            continue
        stack.extend(list(ast.iter_child_nodes(cur))[::-1])


def clone(node):
    """Deep copy of a subtree (or list of subtrees) that does not follow the parent link of its root out of the subtree (a
    plain ``copy.deepcopy`` of a node with parent links copies the whole module, and the copy keeps a link to that copy)."""
    import copy

    if isinstance(node, list):
        return [clone(x) for x in node]
    memo = {}
    par = getattr(node, '_parent', None)
    if par is not None:
        memo[id(par)] = None
    out = copy.deepcopy(node, memo)
    return out


def set_parents(tree: ast.AST) -> None:
    for parent in ast.walk(tree):
        for child in ast.iter_child_nodes(parent):
            child._parent = parent  # type: ignore[attr-defined]


def parent(node: ast.AST) -> typing.Optional[ast.AST]:
    return getattr(node, '_parent', None)


def ancestors(node: ast.AST) -> typing.Iterator[ast.AST]:
    cur = parent(node)
    while cur is not None:
        yield cur
        cur = parent(cur)


def enclosing_stmt(node: ast.AST) -> ast.AST:
    cur = node
    while not isinstance(cur, ast.stmt) and parent(cur) is not None:
        cur = parent(cur)
    return cur


def names_in(node: ast.AST) -> set[str]:
    return {n.id for n in ast.walk(node) if isinstance(n, ast.Name)}


def calls_in(node: ast.AST, deep: bool = False) -> list[ast.Call]:
    it = walk_deep(node) if deep else walk_local(node)
    return [n for n in it if isinstance(n, ast.Call)]


def is_const(node: ast.AST, value: typing.Any = ...) -> bool:
    return isinstance(node, ast.Constant) and (value is ... or (node.value == value and type(node.value) is type(value)))


def decorator_names(fn: ast.AST) -> list[str]:
    out = []
    for d in getattr(fn, 'decorator_list', []):
        tgt = d.func if isinstance(d, ast.Call) else d
        out.append(dotted(tgt) or src(tgt))
    return out


# --------------------------------------------------------------------------------------------------
# temporaries
# --------------------------------------------------------------------------------------------------
def inline_temporaries(fn_node: ast.AST, rounds: int = 4, only: typing.Optional[set] = None) -> ast.AST:
    """Copy of a function in which single-assignment local temporaries (``x = <expr>`` with x bound exactly once, not a
    parameter, loop/with/except/comprehension target or augmented) are substituted into their uses and the assignment
    removed.  Used so that "introduce a temporary" refactorings do not change what a rule sees; line numbers survive."""
    import copy

    node = clone(fn_node)
    for _ in range(rounds):
        params = {a.arg for a in list(node.args.posonlyargs) + list(node.args.args) + list(node.args.kwonlyargs)}
        if node.args.vararg:
            params.add(node.args.vararg.arg)
        if node.args.kwarg:
            params.add(node.args.kwarg.arg)
        bound: dict[str, int] = {}
        simple: dict[str, ast.Assign] = {}
        for n in ast.walk(node):
            if n is node:
                continue
            if isinstance(n, FUNC + (ast.Lambda,)):
                for a in ast.walk(n.args):
                    if isinstance(a, ast.arg):
                        bound[a.arg] = bound.get(a.arg, 0) + 2
            if isinstance(n, ast.Name) and isinstance(n.ctx, (ast.Store, ast.Del)):
                bound[n.id] = bound.get(n.id, 0) + 1
            if isinstance(n, (ast.Global, ast.Nonlocal)):
                for x in n.names:
                    bound[x] = bound.get(x, 0) + 2
        for st in ast.walk(node):
            if isinstance(st, ast.Assign) and len(st.targets) == 1 and isinstance(st.targets[0], ast.Name):
                simple[st.targets[0].id] = st
            elif isinstance(st, ast.AnnAssign) and isinstance(st.target, ast.Name) and st.value is not None:
                simple[st.target.id] = st
        cands = {}
        for name, st in simple.items():
            if bound.get(name, 0) != 1 or name in params or (only is not None and name not in only):
                continue
            val = st.value
            # the value must not depend on names that are re-bound later (keep it simple: all its names bound <= 1 time)
            if any(bound.get(x.id, 0) > 1 for x in ast.walk(val) if isinstance(x, ast.Name)):
                continue
            if any(isinstance(x, (ast.Yield, ast.YieldFrom, ast.Await, ast.NamedExpr)) for x in ast.walk(val)):
                continue
            cands[name] = st
        # substitute leaves first: a candidate whose value mentions another candidate waits for the next round
        leaves = {n: st for n, st in cands.items() if not any(isinstance(x, ast.Name) and x.id in cands and x.id != n for x in ast.walk(st.value))}
        cands = leaves or {}
        if not cands:
            break

        class Sub(ast.NodeTransformer):
            def visit_Name(self, n):  # noqa: N802
                if isinstance(n.ctx, ast.Load) and n.id in cands:
                    return clone(cands[n.id].value)
                return n

            def generic_visit(self, n):
                for field in ('body', 'orelse', 'finalbody'):
                    seq = getattr(n, field, None)
                    if isinstance(seq, list):
                        kept = [s for s in seq if not any(s is c for c in cands.values())]
                        if not kept and seq and isinstance(seq[0], ast.stmt):
                            kept = [ast.copy_location(ast.Pass(), seq[0])]
                        setattr(n, field, kept)
                return super().generic_visit(n)

        node = Sub().visit(node)
        ast.fix_missing_locations(node)
    set_parents(node)
    return node


# --------------------------------------------------------------------------------------------------
# alpha-normalisation of locals (refactoring tolerance)
# --------------------------------------------------------------------------------------------------
_PINNED: typing.Optional[dict] = None


def pinned_locals() -> dict:
    """{module:qualname -> local names in binding order} of the tree the rules were written against (fv/pinned_locals.json,
    generated by tools/mkpinned.py).  It only informs the *renaming* below; what is analysed is always the current source."""
    global _PINNED
    if _PINNED is None:
        path = os.path.join(os.path.dirname(os.path.abspath(__file__)), 'pinned_locals.json')
        try:
            with open(path, encoding='utf-8') as fh:
                _PINNED = json.load(fh)
        except OSError:
            _PINNED = {}
    return _PINNED


def _fn_params(fn: ast.AST) -> set:
    a = fn.args
    out = {x.arg for x in list(a.posonlyargs) + list(a.args) + list(a.kwonlyargs)}
    if a.vararg:
        out.add(a.vararg.arg)
    if a.kwarg:
        out.add(a.kwarg.arg)
    return out


def own_locals(fn: ast.AST) -> list:
    """Names bound inside ``fn`` (not in nested functions/classes/lambdas), in order of their first binding in the source;
    parameters and global/nonlocal names excluded; comprehension variables included."""
    params = _fn_params(fn)
    order: list = []
    blocked: set = set()

    def visit(n: ast.AST) -> None:
        for child in ast.iter_child_nodes(n):
            if isinstance(child, FUNC + (ast.ClassDef, ast.Lambda)):
                if isinstance(child, FUNC + (ast.ClassDef,)) and child.name not in order:
                    order.append(child.name)
                continue
            if isinstance(child, (ast.Global, ast.Nonlocal)):
                blocked.update(child.names)
            if isinstance(child, ast.Name) and isinstance(child.ctx, ast.Store) and child.id not in order:
                order.append(child.id)
            if isinstance(child, ast.ExceptHandler) and child.name and child.name not in order:
                order.append(child.name)
            visit(child)

    # ast.iter_child_nodes follows field order == source order for statements; assignment targets precede values in the
    # field order, which is irrelevant for *first binding* purposes
    visit(fn)
    return [n for n in order if n not in params and n not in blocked]


def _rename_local(fn: ast.AST, old: str, new: str) -> None:
    """Rename the local ``old`` of ``fn`` to ``new`` everywhere it denotes that variable (nested scopes that re-bind the
    name are left alone)."""

    def rebinds(scope: ast.AST) -> bool:
        if isinstance(scope, ast.ClassDef):
            return False
        if old in _fn_params(scope):
            return True
        if isinstance(scope, ast.Lambda):
            return False
        return old in own_locals(scope)

    def visit(n: ast.AST) -> None:
        for child in ast.iter_child_nodes(n):
            if isinstance(child, FUNC + (ast.Lambda,)) and rebinds(child):
                # default values / decorators are evaluated in the enclosing scope
                for d in list(child.args.defaults) + [k for k in child.args.kw_defaults if k is not None]:
                    visit_expr(d)
                continue
            if isinstance(child, ast.Name) and child.id == old:
                child.id = new
            elif isinstance(child, ast.ExceptHandler) and child.name == old:
                child.name = new
            elif isinstance(child, FUNC + (ast.ClassDef,)) and child.name == old:
                child.name = new
            visit(child)

    def visit_expr(e: ast.AST) -> None:
        if isinstance(e, ast.Name) and e.id == old:
            e.id = new
        visit(e)

    visit(fn)


def normalise_function(fn: ast.AST, pinned: list) -> None:
    """Make a harmless refactoring invisible: locals that the pinned version of this function does not know are (1) inlined
    when they are plain single-assignment temporaries, (2) renamed to the pinned names that went missing, in binding order.
    Anything else (different number of locals, name capture) leaves the function as it is."""
    cur = own_locals(fn)
    new = [n for n in cur if n not in pinned]
    if not new:
        return
    fold_return_temporaries(fn, set(pinned))
    cur = own_locals(fn)
    new = [n for n in cur if n not in pinned]
    if not new:
        return
    missing = [n for n in pinned if n not in cur]
    if len(new) > len(missing):
        from . import equiv

        guard = 0
        while equiv.inline_temporaries(fn, only=set(new), sigs=equiv._ACTIVE_SIGS) and guard < 100:  # pylint: disable=protected-access
            guard += 1
        cur = own_locals(fn)
        new = [n for n in cur if n not in pinned]
        missing = [n for n in pinned if n not in cur]
    if new and len(new) == len(missing):
        used = {x.id for x in ast.walk(fn) if isinstance(x, ast.Name)} | _fn_params(fn)
        if not any(m in used for m in missing):
            for a, b in zip(new, missing):
                _rename_local(fn, a, b)


def _simple_expr(e: ast.AST) -> bool:
    """An argument expression that may be substituted for a parameter without changing evaluation (name, constant, attribute
    chain of a name none of whose attributes is a computing property anywhere in the program)."""
    from . import equiv

    if isinstance(e, ast.Attribute) and equiv._computing_chain(e):  # pylint: disable=protected-access
        return False
    while isinstance(e, ast.Attribute):
        e = e.value
    return isinstance(e, (ast.Name, ast.Constant))


def _helper_kind(fn: ast.AST, owner: ast.AST) -> typing.Optional[str]:
    decos = [dotted(d) or '' for d in fn.decorator_list]
    if any(d not in ('staticmethod', 'classmethod') for d in decos):
        return None
    a = fn.args
    if a.vararg or a.kwarg or a.posonlyargs or a.kwonlyargs or isinstance(fn, ast.AsyncFunctionDef):
        return None
    if isinstance(owner, ast.ClassDef):
        if 'staticmethod' in decos:
            return 'static'
        if 'classmethod' in decos:
            return 'class'
        return 'method' if a.args and a.args[0].arg == 'self' else None
    return 'plain'


def _inlinable_body(fn: ast.AST, retry: bool = True) -> typing.Optional[list]:
    """Statements of a straight-line helper: no yield, returns only as the very last statement.  A helper that is not in that
    shape is tried once more with its conditionals folded (guard clauses / if-else returns -> one conditional expression)."""
    if retry:
        first = _inlinable_body(fn, retry=False)
        if first is not None:
            return first
        from . import equiv

        clone = ast.parse(ast.unparse(fn)).body[0]
        equiv.strip_meta(clone)
        for _ in range(3):
            equiv.canonical_tests(clone)
            equiv.sink_returns(clone)
            equiv.flatten_conditionals(clone)
            if not any(isinstance(x, ast.Return) and x.value is not None and not (isinstance(x.value, ast.Constant) and x.value.value is None) for x in ast.walk(clone)):
                equiv.drop_tail_returns(clone)
        ast.fix_missing_locations(clone)
        for x in ast.walk(clone):
            if hasattr(x, 'lineno'):
                x.lineno = getattr(fn, 'lineno', 1)
                x.end_lineno = getattr(fn, 'lineno', 1)
        return _inlinable_body(clone, retry=False)
    body = [x for x in fn.body if not (isinstance(x, ast.Expr) and isinstance(x.value, ast.Constant))]
    if not body:
        return None
    for i, st in enumerate(body):
        for x in ast.walk(st):
            if isinstance(x, (ast.Yield, ast.YieldFrom, ast.Await, ast.Global, ast.Nonlocal)):
                return None
            if isinstance(x, ast.Return) and not (x is st and i == len(body) - 1):
                return None
            if isinstance(x, FUNC + (ast.ClassDef,)):
                return None
    return body


def _tail_lists(seq: list) -> typing.Iterator[list]:
    """Statement lists in tail position of ``seq`` (the list itself, and recursively the arms of a final if / try / with)."""
    yield seq
    if not seq:
        return
    last = seq[-1]
    if isinstance(last, ast.If):
        yield from _tail_lists(last.body)
        yield from _tail_lists(last.orelse)
    elif isinstance(last, ast.Try) and not last.finalbody:
        yield from _tail_lists(last.orelse if last.orelse else last.body)
        for h in last.handlers:
            yield from _tail_lists(h.body)
    elif isinstance(last, (ast.With, ast.AsyncWith)):
        yield from _tail_lists(last.body)


def _absorb_into_try_else(seq: list) -> None:
    """``try: B except ..: <leaves>`` ; R  ==  ``try: B except ..: <leaves> else: R`` (R runs only when B completed, and
    is outside the handlers either way)."""
    from . import equiv

    for k, st in enumerate(seq):
        if isinstance(st, ast.Try) and not st.finalbody and not st.orelse and st.handlers and all(equiv._terminates(h.body) for h in st.handlers) and seq[k + 1:]:  # pylint: disable=protected-access
            st.orelse = seq[k + 1:]
            del seq[k + 1:]
            _absorb_into_try_else(st.orelse)
            break
    for st in seq:
        for f in ('body', 'orelse'):
            sub = getattr(st, f, None)
            if isinstance(sub, list) and sub and isinstance(sub[0], ast.stmt) and not isinstance(st, FUNC + (ast.ClassDef,)):
                _absorb_into_try_else(sub)


def _tail_return_body(fn: ast.AST) -> typing.Optional[list]:
    """Body of a helper all of whose ``return`` statements stand in tail position (guard clauses folded into else arms
    first): such a helper can be spliced into a call that is the whole value of a statement by turning each ``return E``
    into that statement with E.  None if the helper is not of that shape."""
    from . import equiv

    clone = ast.parse(ast.unparse(fn)).body[0]
    equiv.strip_meta(clone)
    for _ in range(3):
        equiv.canonical_tests(clone)
        equiv.flatten_conditionals(clone)
    body = clone.body
    _absorb_into_try_else(body)
    tails = {id(lst[-1]) for lst in _tail_lists(body) if lst and isinstance(lst[-1], ast.Return)}
    for st in body:
        for x in ast.walk(st):
            if isinstance(x, (ast.Yield, ast.YieldFrom, ast.Await, ast.Global, ast.Nonlocal)) or isinstance(x, FUNC + (ast.ClassDef, ast.Lambda)):
                return None
            if isinstance(x, ast.Return) and id(x) not in tails:
                return None
    if not tails:
        return None
    ast.fix_missing_locations(clone)
    for x in ast.walk(clone):
        if hasattr(x, 'lineno'):
            x.lineno = x.end_lineno = getattr(fn, 'lineno', 1)
    return body


def _all_paths_return(seq: list) -> bool:
    if not seq:
        return False
    last = seq[-1]
    if isinstance(last, (ast.Return, ast.Raise)):
        return True
    if isinstance(last, ast.If):
        return bool(last.orelse) and _all_paths_return(last.body) and _all_paths_return(last.orelse)
    if isinstance(last, ast.Try) and not last.finalbody:
        return _all_paths_return(last.orelse if last.orelse else last.body) and all(_all_paths_return(h.body) for h in last.handlers)
    if isinstance(last, (ast.With, ast.AsyncWith)):
        return _all_paths_return(last.body)
    return False


def inline_unknown_helpers(mod: 'Module', pinned: dict) -> bool:
    """Undo an *extract method* refactoring: a function the pinned tree does not know (a new private helper), straight-line,
    called from statement positions (``x = h(..)``, ``return h(..)``, ``h(..)``) - or a one-expression helper called anywhere -
    is spliced back into its callers and removed.  Anything less simple is left alone."""
    prefix = mod.name + ':'
    if not any(k.startswith(prefix) for k in pinned):
        return False
    unknown = {node.name for qual, node in mod.defs.items() if isinstance(node, FUNC) and prefix + qual not in pinned and len([st for st in node.body if not (isinstance(st, ast.Expr) and isinstance(st.value, ast.Constant))]) > 1}
    unfolded = _unfold_helper_comprehensions(mod.tree, unknown) if unknown else False
    if unfolded:
        ast.fix_missing_locations(mod.tree)
        set_parents(mod.tree)
    changed = inline_helpers(mod.tree, mod.defs, lambda qual, node: prefix + qual not in pinned) or unfolded
    if changed:
        ast.fix_missing_locations(mod.tree)
        set_parents(mod.tree)
    for _ in range(6):
        if not _sink_unknown_helpers(mod, pinned):
            break
        changed = True
        ast.fix_missing_locations(mod.tree)
        set_parents(mod.tree)
    if changed:
        ast.fix_missing_locations(mod.tree)
        set_parents(mod.tree)
    return changed


def _sink_unknown_helpers(mod: 'Module', pinned: dict) -> bool:
    """Undo a *hoist closure to method / module function* refactoring: a function the pinned tree does not know, that could
    not be spliced into its callers (handed around as a value, recursive, several statements in expression position) and that
    is referenced from inside one single function only, becomes a nested function of that function again (a method called
    through ``self`` closes over the caller's ``self``).  One helper per call; returns whether something moved."""
    prefix = mod.name + ':'
    tree = mod.tree
    every = [n for n in ast.walk(tree) if isinstance(n, FUNC)]

    def qual_of(fn: ast.AST) -> typing.Optional[str]:
        parts = [fn.name]
        cur = parent(fn)
        while cur is not None and not isinstance(cur, ast.Module):
            if isinstance(cur, FUNC):
                return None  # nested already
            if isinstance(cur, ast.ClassDef):
                parts.append(cur.name)
            cur = parent(cur)
        return '.'.join(reversed(parts))

    for f in every:
        q = qual_of(f)
        if q is None or prefix + q in pinned or f.name.startswith('__'):
            continue
        owner = parent(f)
        kind = _helper_kind(f, owner)
        if kind == 'class' and f.args.args and not any(isinstance(x, ast.Name) and x.id == f.args.args[0].arg for st in f.body for x in ast.walk(st)):
            kind = 'unbound'  # a classmethod that never looks at its class
        if kind not in ('plain', 'static', 'method', 'unbound'):
            continue
        name = f.name
        if sum(1 for n in every if n.name == name) != 1:
            continue
        inside = {id(x) for x in ast.walk(f)}
        refs = []
        ok = True
        for x in ast.walk(tree):
            if id(x) in inside:
                continue
            if isinstance(x, ast.Attribute) and x.attr == name:
                recv = x.value.id if isinstance(x.value, ast.Name) else None
                if kind == 'plain' or not isinstance(x.ctx, ast.Load) or recv is None or (kind == 'method' and recv != 'self') or (kind in ('static', 'unbound') and recv not in ('self', 'cls', owner.name)):
                    ok = False
                refs.append(x)
            elif isinstance(x, ast.Name) and x.id == name:
                if kind != 'plain' or not isinstance(x.ctx, ast.Load):
                    ok = False
                refs.append(x)
            elif isinstance(x, ast.arg) and x.arg == name:
                ok = False
            elif isinstance(x, ast.Constant) and x.value == name:
                ok = False  # getattr(.., 'name') and the like
        if not ok or not refs:
            continue
        hosts = set()
        for r in refs:
            cur, top = parent(r), None
            while cur is not None:
                if isinstance(cur, FUNC):
                    top = cur
                cur = parent(cur)
            hosts.add(id(top) if top is not None else None)
        if len(hosts) != 1 or None in hosts:
            continue
        host = next(n for n in every if id(n) in hosts)
        if host is f or (kind == 'method' and not (host.args.args and host.args.args[0].arg == 'self')):
            continue
        if kind == 'method' and any(isinstance(x, ast.Name) and x.id == 'self' and isinstance(x.ctx, ast.Store) for x in ast.walk(f)):
            continue
        if name in _fn_params(host) or any(isinstance(x, ast.Name) and x.id == name for x in ast.walk(host)):
            continue
        # move
        seq = owner.body
        seq[:] = [x for x in seq if x is not f] or [ast.Pass()]
        f.decorator_list = []
        if kind in ('method', 'unbound'):
            f.args.args = f.args.args[1:]
        for r in refs:
            par = parent(r)
            new = ast.copy_location(ast.Name(id=name, ctx=ast.Load()), r)
            for fld, val in ast.iter_fields(par):
                if val is r:
                    setattr(par, fld, new)
                elif isinstance(val, list):
                    for j, y in enumerate(val):
                        if y is r:
                            val[j] = new
        at = 1 if host.body and isinstance(host.body[0], ast.Expr) and isinstance(host.body[0].value, ast.Constant) and isinstance(host.body[0].value.value, str) else 0
        host.body.insert(at, f)
        return True
    return False


def _unfold_helper_comprehensions(tree: ast.AST, helpers: set) -> bool:
    """``return tuple(h(..x..) for x in it)`` / ``v = [h(..x..) for x in it]`` with a new multi-statement helper ``h`` in the
    element: written as the accumulating loop it abbreviates (``acc = []; for x in it: acc.append(h(..x..))``), so that the
    helper can be spliced back as statements.  ``tuple``/``list`` consume the generator at once and in order; the loop
    variable must not occur elsewhere in the function (a comprehension has a scope of its own)."""
    changed = False
    count = 0
    for fn in [n for n in ast.walk(tree) if isinstance(n, FUNC)]:
        for seq in [getattr(b, f) for b in ast.walk(fn) for f in ('body', 'orelse', 'finalbody') if isinstance(getattr(b, f, None), list)]:
            k = 0
            while k < len(seq):
                st = seq[k]
                k += 1
                if not (isinstance(st, (ast.Return, ast.Assign)) and st.value is not None) or _caller_of(st) is not fn:
                    continue
                val = st.value
                comp, wrap = None, None
                if isinstance(val, ast.ListComp):
                    comp = val
                elif isinstance(val, ast.Call) and isinstance(val.func, ast.Name) and val.func.id in ('tuple', 'list') and len(val.args) == 1 and not val.keywords and isinstance(val.args[0], (ast.GeneratorExp, ast.ListComp)):
                    comp, wrap = val.args[0], val.func.id
                if comp is None or len(comp.generators) != 1 or comp.generators[0].is_async:
                    continue
                gen = comp.generators[0]
                calls = [c for c in ast.walk(comp.elt) if isinstance(c, ast.Call) and ((isinstance(c.func, ast.Name) and c.func.id in helpers) or (isinstance(c.func, ast.Attribute) and c.func.attr in helpers))]
                if not calls or any(isinstance(x, (ast.Lambda, ast.GeneratorExp, ast.ListComp, ast.SetComp, ast.DictComp, ast.NamedExpr, ast.Yield, ast.YieldFrom, ast.Await)) for x in ast.walk(comp.elt)):
                    continue
                targets = {x.id for x in ast.walk(gen.target) if isinstance(x, ast.Name)}
                inside = {id(x) for x in ast.walk(comp)}
                if any(isinstance(x, ast.Name) and x.id in targets and id(x) not in inside for x in ast.walk(fn)) or targets & _fn_params(fn):
                    continue
                count += 1
                acc = f'acc__u{count}'
                push: ast.stmt = ast.Expr(value=ast.Call(func=ast.Attribute(value=ast.Name(id=acc, ctx=ast.Load()), attr='append', ctx=ast.Load()), args=[comp.elt], keywords=[]))
                for cond in reversed(gen.ifs):
                    push = ast.If(test=cond, body=[push], orelse=[])
                loop = ast.For(target=gen.target, iter=gen.iter, body=[push], orelse=[], lineno=st.lineno, col_offset=st.col_offset)
                for x in ast.walk(gen.target):
                    if isinstance(x, ast.Name):
                        x.ctx = ast.Store()
                init = ast.Assign(targets=[ast.Name(id=acc, ctx=ast.Store())], value=ast.List(elts=[], ctx=ast.Load()), lineno=st.lineno, col_offset=st.col_offset)
                result: ast.expr = ast.Name(id=acc, ctx=ast.Load())
                if wrap == 'tuple':
                    result = ast.Call(func=ast.Name(id='tuple', ctx=ast.Load()), args=[result], keywords=[])
                st.value = result
                seq[k - 1:k - 1] = [init, loop]
                k += 2
                changed = True
    return changed


def _caller_of(node: ast.AST) -> typing.Optional[ast.AST]:
    cur = parent(node)
    while cur is not None and not isinstance(cur, FUNC):
        cur = parent(cur)
    return cur


def inline_helpers(tree: ast.AST, defs: dict, select: typing.Callable[[str, ast.AST], bool]) -> bool:
    """Splice the selected helper functions of ``defs`` (qualname -> node, all below ``tree``, parents set) into their call
    sites.  Side conditions: no decorator but static/classmethod, plain parameters, straight-line body (one ``return``, last),
    only ever referenced as the callee of plain calls; every call is either the whole value of a simple statement or the helper
    is a single expression.  Helper locals that clash with names of the caller are renamed; a non-trivial argument is bound
    to the parameter name first.  Returns whether anything changed."""
    import copy

    changed = False
    for qual in sorted(defs, key=lambda q: -q.count('.')):
        node = defs.get(qual)
        if not isinstance(node, FUNC) or not select(qual, node):
            continue
        owner = parent(node)
        if owner is None:
            continue
        kind = _helper_kind(node, owner)
        body = _inlinable_body(node) if kind else None
        tail_mode = False
        if kind and body is None:
            body = _tail_return_body(node)
            tail_mode = body is not None
        if not kind or body is None:
            continue
        params = [a.arg for a in node.args.args]
        defaults = dict(zip(params[len(params) - len(node.args.defaults):], node.args.defaults))
        bound = params[1:] if kind in ('method', 'class') else params
        cls_param = None
        if kind == 'class' and any(isinstance(x, ast.Name) and x.id == params[0] for st in body for x in ast.walk(st)):
            # a classmethod that only reads attributes through cls: at a ``self.h(..)`` / ``cls.h(..)`` call the receiver can
            # stand in for cls (class attributes are found through the instance as well)
            uses = [x for st in body for x in ast.walk(st) if isinstance(x, ast.Name) and x.id == params[0]]
            attr_loads = {id(x.value) for st in body for x in ast.walk(st) if isinstance(x, ast.Attribute) and isinstance(x.ctx, ast.Load)}
            if all(id(u) in attr_loads for u in uses):
                cls_param = params[0]
            else:
                continue
        name = node.name
        scope = owner
        cls_name = owner.name if isinstance(owner, ast.ClassDef) else None
        unique = True
        if isinstance(owner, ast.ClassDef):
            unique = sum(1 for x in ast.walk(tree) if isinstance(x, FUNC) and x.name == name) == 1
            scope = tree  # a uniquely named (new, private) method: subclasses in this module call it through self as well;
            # any other one: through self/cls inside its class, through the class name anywhere
        in_owner = {id(x) for x in ast.walk(owner)}

        def reaches(x: ast.AST) -> bool:
            """does the attribute ``<recv>.name`` denote this helper?"""
            if unique or not isinstance(owner, ast.ClassDef):
                return True
            recv = x.value.id if isinstance(x.value, ast.Name) else (dotted(x.value) or '').split('.')[-1]
            return recv == cls_name if id(x) not in in_owner else True

        def is_call(c: ast.AST) -> bool:
            if not isinstance(c, ast.Call) or any(isinstance(a, ast.Starred) for a in c.args) or any(k.arg is None for k in c.keywords):
                return False
            f = c.func
            if isinstance(owner, ast.ClassDef):
                return isinstance(f, ast.Attribute) and f.attr == name and reaches(f) and ((isinstance(f.value, ast.Name) and f.value.id in ('self', 'cls')) or (dotted(f.value) or '').split('.')[-1] == cls_name)
            return isinstance(f, ast.Name) and f.id == name

        inside = {id(x) for x in ast.walk(node)}
        if any((isinstance(x, ast.Attribute) and x.attr == name) or (isinstance(x, ast.Name) and x.id == name) for st in node.body for x in ast.walk(st)):
            continue  # recursive (or self-referencing): stays a function
        sites = [c for c in ast.walk(scope) if is_call(c) and id(c) not in inside]
        funcs = {id(c.func) for c in sites}
        other_refs = [x for x in ast.walk(scope) if ((isinstance(x, ast.Attribute) and x.attr == name and reaches(x)) or (isinstance(x, ast.Name) and x.id == name and (unique or not isinstance(owner, ast.ClassDef)))) and id(x) not in funcs and id(x) not in inside]
        if other_refs and not tail_mode and kind in ('plain', 'static', 'method') and len(body) == 1 and isinstance(body[0], ast.Return) and body[0].value is not None and all(isinstance(x.ctx, ast.Load) and ((kind == 'plain' and isinstance(x, ast.Name)) or (kind == 'static' and isinstance(x, ast.Attribute) and isinstance(x.value, ast.Name) and x.value.id in ('self', 'cls', cls_name)) or (kind == 'method' and isinstance(x, ast.Attribute) and isinstance(x.value, ast.Name) and x.value.id == 'self' and params[0] == 'self')) for x in other_refs) and not node.args.defaults:
            # a one-expression function handed around as a value is the lambda of that expression (a bound method
            # ``self.h`` is the lambda over the remaining parameters, closing over the very same ``self``)
            for x in other_refs:
                largs = clone(node.args)
                if kind == 'method':
                    largs.args = largs.args[1:]
                lam = ast.copy_location(ast.Lambda(args=largs, body=clone(body[0].value)), x)
                for a in ast.walk(lam.args):
                    if isinstance(a, ast.arg):
                        a.annotation = None
                par = parent(x)
                for fld, val in ast.iter_fields(par):
                    if val is x:
                        setattr(par, fld, lam)
                    elif isinstance(val, list):
                        for j, y in enumerate(val):
                            if y is x:
                                val[j] = lam
            ast.fix_missing_locations(tree)
            set_parents(tree)
            other_refs = []
            changed = True
        if other_refs:
            continue  # passed around as a value / recursive: not a plain call-only helper
        if not sites:
            if changed and not any(((isinstance(x, ast.Attribute) and x.attr == name) or (isinstance(x, ast.Name) and x.id == name)) and id(x) not in inside for x in ast.walk(scope)):
                for blk in ast.walk(owner):
                    for f in ('body', 'orelse', 'finalbody'):
                        cand = getattr(blk, f, None)
                        if isinstance(cand, list) and any(x is node for x in cand):
                            cand[:] = [x for x in cand if x is not node] or [ast.Pass()]
            continue
        helper_locals = {x.id for st in body for x in ast.walk(st) if isinstance(x, ast.Name) and isinstance(x.ctx, ast.Store)}
        helper_locals |= {a.arg for st in body for x in ast.walk(st) if isinstance(x, ast.comprehension) for a in []}

        def instantiate(call: ast.Call, caller: typing.Optional[ast.AST], target: set) -> typing.Optional[tuple]:
            """(prelude statements, body statements without the final return, return expression or None)"""
            binding = {}
            if len(call.args) > len(bound):
                return None
            for p_, a in zip(bound, call.args):
                binding[p_] = a
            for k in call.keywords:
                if k.arg not in bound or k.arg in binding:
                    return None
                binding[k.arg] = k.value
            for p_ in bound:
                if p_ not in binding:
                    if p_ in defaults:
                        binding[p_] = defaults[p_]
                    else:
                        return None
            stmts = clone(body)
            if cls_param is not None:
                recv = call.func.value if isinstance(call.func, ast.Attribute) else None
                if not (isinstance(recv, ast.Name) and recv.id in ('self', 'cls')):
                    return None
                for st_ in stmts:
                    for x in ast.walk(st_):
                        if isinstance(x, ast.Name) and x.id == cls_param:
                            x.id = recv.id
            caller_names = set()
            if caller is not None:
                caller_names = {x.id for x in ast.walk(caller) if isinstance(x, ast.Name) and id(x) not in inside} | _fn_params(caller)
                caller_names -= {name}
            # helper names that would capture / be captured by caller names are renamed apart (except the statement's own target)
            rename = {}
            for loc in sorted(helper_locals | set(bound)):
                same_arg = loc in binding and isinstance(binding[loc], ast.Name) and binding[loc].id == loc
                if loc in caller_names and loc not in target and not (same_arg and loc not in helper_locals):
                    rename[loc] = loc + '__h'
            if rename:
                for st in stmts:
                    for x in ast.walk(st):
                        if isinstance(x, ast.Name) and x.id in rename:
                            x.id = rename[x.id]
            prelude = []
            subst = {}
            for p_, a in binding.items():
                q_ = rename.get(p_, p_)
                if isinstance(a, ast.Name) and a.id == q_:
                    continue
                if _simple_expr(a) and p_ not in helper_locals and not (isinstance(a, ast.Name) and a.id in helper_locals):
                    subst[q_] = a
                else:
                    prelude.append(ast.Assign(targets=[ast.Name(id=q_, ctx=ast.Store())], value=clone(a), lineno=call.lineno, col_offset=0))

            class Sub(ast.NodeTransformer):
                def visit_Name(self, n):  # noqa: N802
                    if isinstance(n.ctx, ast.Load) and n.id in subst:
                        return clone(subst[n.id])
                    return n

            stmts = [Sub().visit(st) for st in stmts]
            ret = None
            if not tail_mode and stmts and isinstance(stmts[-1], ast.Return):
                ret = stmts[-1].value
                stmts = stmts[:-1]
            return prelude, stmts, ret

        done = 0
        for call in sites:
            st = call
            while st is not None and not isinstance(st, ast.stmt):
                st = parent(st)
            if st is None:
                continue
            container = parent(st)
            seq = None
            for f in ('body', 'orelse', 'finalbody'):
                cand = getattr(container, f, None)
                if isinstance(cand, list) and any(x is st for x in cand):
                    seq = cand
            if seq is None:
                continue
            whole = isinstance(st, (ast.Assign, ast.AnnAssign, ast.Return, ast.Expr)) and getattr(st, 'value', None) is call
            target = set()
            if whole and isinstance(st, (ast.Assign, ast.AnnAssign)):
                # names the call statement (re)binds anyway: a helper local of the same name may share the variable
                for t in (st.targets if isinstance(st, ast.Assign) else [st.target]):
                    if isinstance(t, ast.Name):
                        target.add(t.id)
                    elif isinstance(t, (ast.Tuple, ast.List)) and all(isinstance(e, ast.Name) for e in t.elts):
                        target |= {e.id for e in t.elts}
            inst = instantiate(call, _caller_of(st), target)
            if inst is None:
                continue
            prelude, stmts, ret = inst
            k = next(i for i, x in enumerate(seq) if x is st)
            if tail_mode:
                if not whole or (not isinstance(st, ast.Expr) and not _all_paths_return(stmts)):
                    continue
                for lst in list(_tail_lists(stmts)):
                    if lst and isinstance(lst[-1], ast.Return):
                        r = lst[-1]
                        value = r.value if r.value is not None else ast.Constant(value=None)
                        if isinstance(st, ast.Return):
                            continue
                        if isinstance(st, ast.Expr):
                            lst[-1:] = [] if _simple_expr(value) else [ast.copy_location(ast.Expr(value=value), r)]
                            if not lst:
                                lst.append(ast.copy_location(ast.Pass(), r))
                        else:
                            new_st = copy.copy(st)
                            new_st.value = value
                            lst[-1] = ast.copy_location(new_st, r)
                seq[k:k + 1] = prelude + stmts
                done += 1
                ast.fix_missing_locations(container)
                set_parents(tree)
                continue
            if whole:
                if isinstance(st, ast.Expr):
                    tail = [] if ret is None or _simple_expr(ret) else [ast.Expr(value=ret)]
                elif ret is None:
                    if isinstance(st, ast.Return):
                        tail = [ast.Return(value=None)]
                    else:
                        continue
                else:
                    new_st = copy.copy(st)
                    new_st.value = ret
                    tail = [new_st]
                    if isinstance(new_st, ast.Assign) and len(new_st.targets) == 1 and src(new_st.targets[0]).strip('()') == src(ret).strip('()'):
                        tail = []  # ``a, b = a, b``: the helper left its results in the very variables they are assigned to
                seq[k:k + 1] = prelude + stmts + tail
                done += 1
            elif ret is not None and (prelude or stmts) and isinstance(st, (ast.Assign, ast.AnnAssign, ast.Return, ast.Expr, ast.AugAssign, ast.If)) and (not isinstance(st, ast.If) or any(x is call for x in ast.walk(st.test))):
                # a multi-statement helper called inside a larger expression: its statements run first, if the call is
                # evaluated unconditionally and before any other call of that statement
                from . import equiv

                order: list = []
                equiv._postorder(st.test if isinstance(st, ast.If) else st, order)  # pylint: disable=protected-access
                pos = next((j for j, x in enumerate(order) if x is call), None)
                earlier = [x for x in order[:pos] if isinstance(x, ast.Call) and not any(x is y for y in ast.walk(call))] if pos is not None else [None]
                if pos is None or earlier or equiv._conditional_position(st.test if isinstance(st, ast.If) else st, call):  # pylint: disable=protected-access
                    continue
                tmp = f'{name}__r{done}'
                hoisted = prelude + stmts + [ast.Assign(targets=[ast.Name(id=tmp, ctx=ast.Store())], value=ret, lineno=st.lineno, col_offset=0)]

                class Rep2(ast.NodeTransformer):
                    def visit_Call(self, n):  # noqa: N802
                        self.generic_visit(n)
                        return ast.copy_location(ast.Name(id=tmp, ctx=ast.Load()), n) if n is call else n

                if isinstance(st, ast.If):
                    st.test = Rep2().visit(st.test)
                    seq[k:k + 1] = hoisted + [st]
                else:
                    seq[k:k + 1] = hoisted + [Rep2().visit(st)]
                done += 1
            elif not prelude and not stmts and ret is not None:
                # one-expression helper inside a larger expression
                class Rep(ast.NodeTransformer):
                    def visit_Call(self, n):  # noqa: N802
                        self.generic_visit(n)
                        return ret if n is call else n

                seq[k] = Rep().visit(st)
                done += 1
            ast.fix_missing_locations(container)
            set_parents(tree)
        if done == len(sites):
            seq = getattr(owner, 'body', None)
            for f in ('body', 'orelse', 'finalbody'):
                cand = getattr(owner, f, None)
                if isinstance(cand, list) and any(x is node for x in cand):
                    cand[:] = [x for x in cand if x is not node] or [ast.Pass()]
            # nested helper defined in a nested block of the owner
            for blk in ast.walk(owner):
                for f in ('body', 'orelse', 'finalbody'):
                    cand = getattr(blk, f, None)
                    if isinstance(cand, list) and any(x is node for x in cand):
                        cand[:] = [x for x in cand if x is not node] or [ast.Pass()]
            changed = True
        elif done:
            changed = True
    if changed:
        ast.fix_missing_locations(tree)
        set_parents(tree)
    return changed


def canonical_ifs(tree: ast.AST) -> bool:
    """``if not c: A else: B`` -> ``if c: B else: A`` (both arms present, no elif chain): one spelling for both orders."""
    changed = False
    for n in ast.walk(tree):
        if isinstance(n, ast.If) and n.orelse and isinstance(n.test, ast.UnaryOp) and isinstance(n.test.op, ast.Not) and not (len(n.orelse) == 1 and isinstance(n.orelse[0], ast.If)) and not (len(n.body) == 1 and isinstance(n.body[0], ast.If)):
            n.test = n.test.operand
            n.body, n.orelse = n.orelse, n.body
            changed = True
    return changed


def fold_return_temporaries(fn: ast.AST, keep: set) -> None:
    """``x = E`` immediately followed by ``return x`` (x not a known local) -> ``return E``."""
    for n in ast.walk(fn):
        for field in ('body', 'orelse', 'finalbody'):
            seq = getattr(n, field, None)
            if not isinstance(seq, list):
                continue
            i = 0
            while i + 1 < len(seq):
                a, b = seq[i], seq[i + 1]
                if isinstance(a, ast.Assign) and len(a.targets) == 1 and isinstance(a.targets[0], ast.Name) and a.targets[0].id not in keep and isinstance(b, ast.Return) and isinstance(b.value, ast.Name) and b.value.id == a.targets[0].id:
                    name = a.targets[0].id
                    others = sum(1 for x in ast.walk(fn) if isinstance(x, ast.Name) and x.id == name)
                    if others == 2:
                        seq[i:i + 2] = [ast.copy_location(ast.Return(value=a.value), b)]
                        continue
                i += 1


def _is_noop(st: ast.AST) -> bool:
    """``pass`` and diagnostic logging calls (``LOGGER.debug(...)`` ...): nothing a property of this code base depends on."""
    if isinstance(st, ast.Pass):
        return True
    if isinstance(st, ast.Expr) and isinstance(st.value, ast.Call):
        name = dotted(st.value.func) or ''
        return name.startswith('LOGGER.') and name.split('.')[-1] in ('debug', 'info', 'warning', 'error', 'critical', 'exception', 'log')
    return False


def strip_noops(tree: ast.AST) -> bool:
    changed = False
    for n in ast.walk(tree):
        for field in ('body', 'orelse', 'finalbody'):
            seq = getattr(n, field, None)
            if isinstance(seq, list) and seq and isinstance(seq[0], ast.stmt) and any(_is_noop(x) for x in seq):
                kept = [x for x in seq if not _is_noop(x)]
                if not kept and field == 'body':
                    kept = [ast.copy_location(ast.Pass(), seq[0])]
                if kept != seq and not (len(seq) == 1 and isinstance(seq[0], ast.Pass)):
                    setattr(n, field, kept)
                    changed = True
    return changed


# --------------------------------------------------------------------------------------------------
# modules
# --------------------------------------------------------------------------------------------------
class Module:
    def __init__(self, name: str, path: str, relpath: str, is_pkg: bool, source: str):
        self.name = name
        self.path = path
        self.relpath = relpath
        self.is_pkg = is_pkg
        self.source = source
        try:
            self.tree = ast.parse(source, filename=path)
        except SyntaxError as err:
            raise AnalysisError(f'unparsable file {relpath}: {err}') from err
        set_parents(self.tree)
        self.imports: dict[str, str] = {}
        self.defs: dict[str, ast.AST] = {}  # qualname -> ClassDef/FunctionDef (nested included)
        self.assigns: dict[str, ast.AST] = {}  # top-level NAME = value
        self.equivalent: list = []  # functions replaced by their reference spelling (proved equivalent, fv/equiv.py)
        self.renamed: list = []  # (new name, reference qualname) of functions that were merely renamed
        self._index()
        if not os.environ.get('FV_NO_NORMALISE'):
            self._normalise()

    def _normalise(self) -> None:
        """Refactoring tolerance (DESIGN 2.12): no-op statements dropped, unknown temporaries inlined, renamed locals mapped
        back to the names the rules were written with.  Outer functions first (their renames reach free references of the
        nested ones)."""
        pinned = pinned_locals()
        changed = False
        if strip_noops(self.tree):
            changed = True
        if changed:
            ast.fix_missing_locations(self.tree)
            set_parents(self.tree)

    def _undo_extractions(self) -> None:
        """Second phase (Program, once the whole-program index exists): new call-only helpers are spliced back."""
        if inline_unknown_helpers(self, pinned_locals()):
            self.defs.clear()
            self.assigns.clear()
            self._index()

    def _normalise_mild(self) -> None:
        """Second phase (after the equivalence substitution, see Program): functions that could not be proved equivalent to
        their reference spelling still get unknown temporaries inlined and renamed locals mapped back."""
        pinned = pinned_locals()
        changed = False
        if canonical_ifs(self.tree):
            changed = True
        for qual in sorted(self.defs, key=lambda q: q.count('.')):
            node = self.defs[qual]
            if not isinstance(node, FUNC):
                continue
            want = pinned.get(f'{self.name}:{qual}')
            if want is None:
                continue
            before = ast.dump(node)
            normalise_function(node, want)
            changed = changed or ast.dump(node) != before
        if changed:
            ast.fix_missing_locations(self.tree)
            set_parents(self.tree)
            self.defs.clear()
            self.assigns.clear()
            self._index()

    @property
    def package(self) -> str:
        return self.name if self.is_pkg else self.name.rpartition('.')[0]

    def _abs(self, module: typing.Optional[str], level: int) -> str:
        if not level:
            return module or ''
        base = self.package.split('.')
        if level > 1:
            base = base[: len(base) - (level - 1)]
        return '.'.join(base + ([module] if module else []))

    def record_imports(self, body_owner: ast.AST, table: dict[str, str], local_only: bool) -> None:
        it = walk_local(body_owner) if local_only else ast.walk(body_owner)
        for node in it:
            if isinstance(node, ast.Import):
                for alias in node.names:
                    if alias.asname:
                        table[alias.asname] = alias.name
                    else:
                        table[alias.name.split('.')[0]] = alias.name.split('.')[0]
            elif isinstance(node, ast.ImportFrom):
                base = self._abs(node.module, node.level)
                for alias in node.names:
                    if alias.name == '*':
                        continue
                    table[alias.asname or alias.name] = f'{base}.{alias.name}' if base else alias.name

    def _index(self) -> None:
        # module level imports (including ones under ``if typing.TYPE_CHECKING`` / try blocks)
        self.record_imports(self.tree, self.imports, local_only=True)

        def visit(body: list[ast.stmt], prefix: str, toplevel: bool) -> None:
            for stmt in body:
                if isinstance(stmt, FUNC + (ast.ClassDef,)):
                    qual = f'{prefix}{stmt.name}'
                    # keep the first definition unless overloaded by property setter etc.
                    if qual not in self.defs or not _is_overload_stub(stmt):
                        if qual in self.defs and _is_setter(stmt):
                            pass
                        else:
                            self.defs[qual] = stmt
                    stmt._qual = qual  # type: ignore[attr-defined]
                    stmt._module = self  # type: ignore[attr-defined]
                    visit(stmt.body, qual + '.', False)
                elif isinstance(stmt, (ast.If, ast.Try, ast.With, ast.For, ast.While)):
                    for attr in ('body', 'orelse', 'finalbody'):
                        visit(getattr(stmt, attr, []) or [], prefix, toplevel)
                    for h in getattr(stmt, 'handlers', []) or []:
                        visit(h.body, prefix, toplevel)
                elif toplevel and isinstance(stmt, ast.Assign):
                    for t in stmt.targets:
                        if isinstance(t, ast.Name):
                            self.assigns[t.id] = stmt.value
                elif toplevel and isinstance(stmt, ast.AnnAssign) and isinstance(stmt.target, ast.Name) and stmt.value:
                    self.assigns[stmt.target.id] = stmt.value

        visit(self.tree.body, '', True)


def _is_overload_stub(fn: ast.AST) -> bool:
    return any(d.endswith('overload') for d in decorator_names(fn))


def _is_setter(fn: ast.AST) -> bool:
    return any(d.endswith('.setter') or d.endswith('.deleter') for d in decorator_names(fn))


# --------------------------------------------------------------------------------------------------
# classes / functions
# --------------------------------------------------------------------------------------------------
class ClassInfo:
    def __init__(self, prog: 'Program', module: Module, qual: str, node: ast.ClassDef):
        self.prog = prog
        self.module = module
        self.qual = qual
        self.node = node
        self.name = node.name
        self.ref = f'{module.name}:{qual}'
        self.methods: dict[str, ast.AST] = {}
        self.all_defs: dict[str, list[ast.AST]] = {}
        self.assigns: dict[str, ast.AST] = {}
        self.annotations: dict[str, ast.AST] = {}
        self.nested: dict[str, str] = {}
        for stmt in node.body:
            if isinstance(stmt, FUNC):
                self.all_defs.setdefault(stmt.name, []).append(stmt)
                if stmt.name in self.methods and _is_setter(stmt):
                    continue
                self.methods[stmt.name] = stmt
            elif isinstance(stmt, ast.ClassDef):
                self.nested[stmt.name] = f'{module.name}:{qual}.{stmt.name}'
            elif isinstance(stmt, ast.Assign):
                for t in stmt.targets:
                    if isinstance(t, ast.Name):
                        self.assigns[t.id] = stmt.value
                    elif isinstance(t, ast.Tuple):
                        for e in t.elts:
                            if isinstance(e, ast.Name):
                                self.assigns[e.id] = stmt.value
            elif isinstance(stmt, ast.AnnAssign) and isinstance(stmt.target, ast.Name):
                self.annotations[stmt.target.id] = stmt.annotation
                if stmt.value is not None:
                    self.assigns[stmt.target.id] = stmt.value
        self._bases: typing.Optional[list] = None
        self._mro: typing.Optional[list] = None

    def __repr__(self) -> str:
        return f'<class {self.ref}>'

    @property
    def bases(self) -> list:
        """Resolved bases: ClassInfo for in-repo classes, str for external ones."""
        if self._bases is None:
            out = []
            for b in self.node.bases:
                tgt = b
                while isinstance(tgt, ast.Subscript):  # typing.Generic[...] / Mapping[K, V]
                    tgt = tgt.value
                if isinstance(tgt, ast.Call):  # collections.namedtuple(...)
                    out.append(dotted(tgt.func) or src(tgt.func))
                    continue
                name = dotted(tgt)
                if name is None:
                    out.append(src(tgt))
                    continue
                res = self.prog.resolve(self.module, name, scope=self.qual)
                out.append(res if isinstance(res, ClassInfo) else (res if isinstance(res, str) else name))
            self._bases = out
        return self._bases

    @property
    def metaclass(self) -> typing.Optional[str]:
        for kw in self.node.keywords:
            if kw.arg == 'metaclass':
                return dotted(kw.value) or src(kw.value)
        return None

    def mro(self) -> list:
        """Static C3 linearisation (external bases are opaque leaves)."""
        if self._mro is None:
            self._mro = _c3(self, set())
        return self._mro

    def mro_classes(self) -> list['ClassInfo']:
        return [c for c in self.mro() if isinstance(c, ClassInfo)]

    def external_bases(self) -> list[str]:
        return [c for c in self.mro() if isinstance(c, str)]

    def lookup(self, name: str) -> typing.Optional[tuple['ClassInfo', ast.AST]]:
        """Resolve attribute ``name`` through the MRO to (owner, defining node)."""
        for c in self.mro_classes():
            if name in c.methods:
                return c, c.methods[name]
            if name in c.assigns:
                return c, c.assigns[name]
            if name in c.nested:
                return c, self.prog.classes[c.nested[name]].node
        return None

    def lookup_after(self, owner: 'ClassInfo', name: str) -> typing.Optional[tuple['ClassInfo', ast.AST]]:
        """``super()`` resolution: next definition of ``name`` after ``owner`` in this class's MRO."""
        seen = False
        for c in self.mro_classes():
            if seen:
                if name in c.methods:
                    return c, c.methods[name]
                if name in c.assigns:
                    return c, c.assigns[name]
            elif c is owner:
                seen = True
        return None

    def annotation(self, name: str) -> typing.Optional[tuple['ClassInfo', ast.AST]]:
        for c in self.mro_classes():
            if name in c.annotations:
                return c, c.annotations[name]
        return None

    def is_subclass_of(self, other: typing.Union['ClassInfo', str]) -> bool:
        if isinstance(other, str):
            return any((isinstance(c, ClassInfo) and c.ref == other) or c == other for c in self.mro())
        return other in self.mro()

    def abstract_names(self) -> set[str]:
        """Names whose MRO-resolved definition is decorated abstract."""
        out = set()
        seen = set()
        for c in self.mro_classes():
            for n, fns in c.all_defs.items():
                if n in seen:
                    continue
                seen.add(n)
                if any('abstract' in d for fn in fns for d in decorator_names(fn)):
                    out.add(n)
            for n in c.assigns:
                seen.add(n)
        return out

    def func(self, name: str) -> 'FuncInfo':
        if name not in self.methods:
            raise AnalysisError(f'anchor vanished: method {self.ref}.{name}')
        return self.prog.func(f'{self.ref}.{name}')


def _c3(cls: ClassInfo, guard: set) -> list:
    if cls.ref in guard:
        return [cls]
    guard = guard | {cls.ref}
    seqs = []
    for b in cls.bases:
        seqs.append(_c3(b, guard) if isinstance(b, ClassInfo) else [b])
    seqs.append(list(cls.bases))
    out: list = [cls]
    seqs = [list(s) for s in seqs if s]
    while seqs:
        for s in seqs:
            head = s[0]
            if not any(head in t[1:] for t in seqs):
                break
        else:  # inconsistent hierarchy: fall back to depth-first order without duplicates
            head = seqs[0][0]
        out.append(head)
        seqs = [[x for x in s if x is not head and x != head] for s in seqs]
        seqs = [s for s in seqs if s]
    return out


class FuncInfo:
    def __init__(self, prog: 'Program', module: Module, qual: str, node: ast.AST):
        self.prog = prog
        self.module = module
        self.qual = qual
        self.node = node
        self.name = node.name  # type: ignore[attr-defined]
        self.ref = f'{module.name}:{qual}'
        self.local_imports: dict[str, str] = {}
        module.record_imports(node, self.local_imports, local_only=False)

    def __repr__(self) -> str:
        return f'<func {self.ref}>'

    @property
    def cls(self) -> typing.Optional[ClassInfo]:
        """Innermost enclosing class (also for closures nested in methods)."""
        parts = self.qual.split('.')
        for i in range(len(parts) - 1, 0, -1):
            ref = f'{self.module.name}:{".".join(parts[:i])}'
            if ref in self.prog.classes:
                return self.prog.classes[ref]
        return None

    @property
    def params(self) -> list[ast.arg]:
        a = self.node.args  # type: ignore[attr-defined]
        return list(a.posonlyargs) + list(a.args) + ([a.vararg] if a.vararg else []) + list(a.kwonlyargs) + (
            [a.kwarg] if a.kwarg else []
        )

    @property
    def param_names(self) -> list[str]:
        return [p.arg for p in self.params]

    @property
    def body(self) -> list[ast.stmt]:
        return self.node.body  # type: ignore[attr-defined]

    def loc(self, node: typing.Optional[ast.AST] = None) -> str:
        n = node if node is not None else self.node
        return f'{self.module.relpath}:{getattr(n, "lineno", 0)}'

    def nested(self, name: str) -> 'FuncInfo':
        return self.prog.func(f'{self.ref}.{name}')

    def inlined(self) -> 'FuncInfo':
        """The same function with single-assignment temporaries substituted (see inline_temporaries)."""
        if not hasattr(self, '_inlined'):
            clone = FuncInfo.__new__(FuncInfo)
            clone.__dict__.update(self.__dict__)
            clone.node = inline_temporaries(self.node)
            clone.node._qual = getattr(self.node, '_qual', self.qual)
            clone.node._module = self.module
            self._inlined = clone
        return self._inlined

    def normal(self) -> 'FuncInfo':
        """The same function in the refactoring-equivalence normal form (fv.equiv.normal_form): loops folded into
        comprehensions, temporaries inlined, guards flattened, locals alpha-renamed. Line numbers are those of the
        normal form, so report the original node as location."""
        if not hasattr(self, '_normal'):
            from . import equiv

            sigs = equiv._ACTIVE_SIGS  # pylint: disable=protected-access
            if sigs is None:
                sigs = equiv.SignatureIndex(self.prog.modules.values())
            clone = FuncInfo.__new__(FuncInfo)
            clone.__dict__.update(self.__dict__)
            parts = self.qual.split('.')
            clone.node = equiv.normal_form(self.node, sigs, parts[-2] if len(parts) > 1 else None)
            equiv._ACTIVE_SIGS = sigs  # pylint: disable=protected-access
            ast.fix_missing_locations(clone.node)
            for n in ast.walk(clone.node):
                for c in ast.iter_child_nodes(n):
                    c._parent = n  # pylint: disable=protected-access
            clone.node._qual = getattr(self.node, '_qual', self.qual)
            clone.node._module = self.module
            self._normal = clone
        return self._normal

    def text(self) -> str:
        """Normalised source of the function as written plus the variant with temporaries inlined (for pattern rules)."""
        return src(self.node) + '\n# -- temporaries inlined --\n' + src(self.inlined().node)


# --------------------------------------------------------------------------------------------------
# program
# --------------------------------------------------------------------------------------------------
class Program:
    """All modules under <root>/forml parsed once."""

    def __init__(self, root: str, package: str = 'forml'):
        self.root = os.path.abspath(root)
        self.package = package
        self.modules: dict[str, Module] = {}
        self.classes: dict[str, ClassInfo] = {}
        self._funcs: dict[str, FuncInfo] = {}
        self.consulted: set[str] = set()
        pkgdir = os.path.join(self.root, package)
        if not os.path.isdir(pkgdir):
            raise AnalysisError(f'no package directory {pkgdir}')
        for dirpath, dirnames, filenames in os.walk(pkgdir):
            dirnames[:] = sorted(d for d in dirnames if d != '__pycache__')
            for fn in sorted(filenames):
                if not fn.endswith('.py'):
                    continue
                path = os.path.join(dirpath, fn)
                rel = os.path.relpath(path, self.root)
                parts = rel[:-3].split(os.sep)
                is_pkg = parts[-1] == '__init__'
                if is_pkg:
                    parts = parts[:-1]
                name = '.'.join(parts)
                with open(path, encoding='utf-8') as fh:
                    source = fh.read()
                self.modules[name] = Module(name, path, rel, is_pkg, source)
        if not os.environ.get('FV_NO_NORMALISE'):
            from . import equiv

            changed_mods = [m for m in self.modules.values() if equiv.pinned_sources().get(m.name) not in (None, m.source)]
            sigs = equiv.SignatureIndex(self.modules.values()) if changed_mods else None
            equiv._ACTIVE_SIGS = sigs  # pylint: disable=protected-access
            for mod in changed_mods:
                mod.renamed = equiv.undo_import_aliases(mod) + equiv.undo_renames(mod, sigs)
                if mod.renamed:
                    mod.imports.clear()
                    mod.defs.clear()
                    mod.assigns.clear()
                    mod._index()  # pylint: disable=protected-access
                mod._undo_extractions()  # pylint: disable=protected-access
                mod.equivalent = equiv.substitute_equivalent(mod, sigs)
                if mod.equivalent:
                    ast.fix_missing_locations(mod.tree)
                    set_parents(mod.tree)
                    mod.defs.clear()
                    mod.assigns.clear()
                    mod._index()  # pylint: disable=protected-access
            if not os.environ.get('FV_NO_MILD'):
                for mod in self.modules.values():
                    mod._normalise_mild()  # pylint: disable=protected-access
        for mod in self.modules.values():
            for qual, node in mod.defs.items():
                if isinstance(node, ast.ClassDef):
                    self.classes[f'{mod.name}:{qual}'] = ClassInfo(self, mod, qual, node)
        self._subclasses: typing.Optional[dict[str, list[ClassInfo]]] = None

    # ---- statistics / digests
    def stats(self) -> dict:
        nfunc = sum(1 for m in self.modules.values() for n in m.defs.values() if isinstance(n, FUNC))
        equivalent = sorted(f'{m.name}:{q}' for m in self.modules.values() for q in m.equivalent)
        return {'modules_parsed': len(self.modules), 'classes': len(self.classes), 'functions': nfunc, 'equivalent_functions': equivalent}

    def digest(self, modules: typing.Optional[typing.Iterable[str]] = None) -> str:
        h = hashlib.sha256()
        for name in sorted(modules if modules is not None else self.modules):
            if name in self.modules:
                h.update(name.encode())
                h.update(self.modules[name].source.encode())
        return h.hexdigest()[:16]

    # ---- anchors
    def module(self, name: str) -> Module:
        if name not in self.modules:
            raise AnalysisError(f'anchor vanished: module {name}')
        self.consulted.add(name)
        return self.modules[name]

    def cls(self, ref: str) -> ClassInfo:
        if ref not in self.classes:
            raise AnalysisError(f'anchor vanished: class {ref}')
        self.consulted.add(ref.split(':')[0])
        return self.classes[ref]

    def has_cls(self, ref: str) -> bool:
        return ref in self.classes

    def func(self, ref: str) -> FuncInfo:
        if ref not in self._funcs:
            modname, _, qual = ref.partition(':')
            mod = self.module(modname)
            node = mod.defs.get(qual)
            if not isinstance(node, FUNC):
                raise AnalysisError(f'anchor vanished: function {ref}')
            self._funcs[ref] = FuncInfo(self, mod, qual, node)
        self.consulted.add(ref.split(':')[0])
        return self._funcs[ref]

    def has_func(self, ref: str) -> bool:
        modname, _, qual = ref.partition(':')
        return modname in self.modules and isinstance(self.modules[modname].defs.get(qual), FUNC)

    def functions(self, modules: typing.Optional[typing.Iterable[str]] = None) -> typing.Iterator[FuncInfo]:
        for name in sorted(modules if modules is not None else self.modules):
            mod = self.modules.get(name)
            if mod is None:
                continue
            for qual, node in mod.defs.items():
                if isinstance(node, FUNC):
                    yield self.func(f'{name}:{qual}')

    def func_of_node(self, node: ast.AST) -> typing.Optional[FuncInfo]:
        for a in [node] + list(ancestors(node)):
            if isinstance(a, FUNC) and hasattr(a, '_qual'):
                return self.func(f'{a._module.name}:{a._qual}')  # type: ignore[attr-defined]
        return None

    def subclasses(self, base: typing.Union[ClassInfo, str], strict: bool = True) -> list[ClassInfo]:
        ref = base.ref if isinstance(base, ClassInfo) else base
        out = []
        for c in self.classes.values():
            if c.ref == ref:
                if not strict:
                    out.append(c)
                continue
            if any(isinstance(m, ClassInfo) and m.ref == ref for m in c.mro()):
                out.append(c)
        return out

    # ---- name resolution
    def lookup_in_module(self, modname: str, attr: str, _depth: int = 0):
        """Resolve ``modname.attr`` to ClassInfo / FuncInfo / module name (str 'mod:<name>') / ('assign', node) /
        external dotted str."""
        if _depth > 12:
            return f'{modname}.{attr}'
        sub = f'{modname}.{attr}'
        mod = self.modules.get(modname)
        if mod is None:
            return sub  # external
        if attr in mod.defs:
            node = mod.defs[attr]
            ref = f'{modname}:{attr}'
            return self.classes[ref] if isinstance(node, ast.ClassDef) else self.func(ref)
        if attr in mod.imports:
            return self._resolve_abs(mod.imports[attr], _depth + 1)
        if sub in self.modules:
            return f'mod:{sub}'
        if attr in mod.assigns:
            return ('assign', mod, mod.assigns[attr])
        return sub

    def _resolve_abs(self, path: str, _depth: int = 0):
        """Resolve an absolute dotted path (module or module attribute chain)."""
        if path in self.modules:
            return f'mod:{path}'
        parts = path.split('.')
        for i in range(len(parts) - 1, 0, -1):
            head = '.'.join(parts[:i])
            if head in self.modules:
                cur = f'mod:{head}'
                for attr in parts[i:]:
                    cur = self._getattr(cur, attr, _depth)
                return cur
        return path

    def _getattr(self, cur, attr: str, _depth: int = 0):
        if isinstance(cur, str) and cur.startswith('mod:'):
            return self.lookup_in_module(cur[4:], attr, _depth + 1)
        if isinstance(cur, ClassInfo):
            found = cur.lookup(attr)
            if found is None:
                return f'{cur.ref}.{attr}'
            owner, node = found
            if isinstance(node, ast.ClassDef):
                return self.classes[f'{owner.module.name}:{owner.qual}.{attr}']
            if isinstance(node, FUNC):
                return self.func(f'{owner.ref}.{attr}')
            # class-level alias such as ``Kind = SomeEnum``
            if isinstance(node, (ast.Name, ast.Attribute)):
                name = dotted(node)
                if name:
                    res = self.resolve(owner.module, name, scope=owner.qual)
                    if isinstance(res, (ClassInfo, FuncInfo)):
                        return res
            return ('assign', owner.module, node)
        if isinstance(cur, str):
            return f'{cur}.{attr}'
        return f'?.{attr}'

    def resolve(self, module: Module, name: str, scope: str = '', func: typing.Optional[FuncInfo] = None):
        """Resolve the dotted ``name`` as written inside ``module`` (lexical scope ``scope`` = enclosing qualname).

        Returns ClassInfo | FuncInfo | 'mod:<module>' | ('assign', module, node) | external dotted str.
        """
        parts = name.split('.')
        head = parts[0]
        cur = None
        # lexical class scopes (nested classes referencing siblings by bare name inside class bodies)
        scopes = scope.split('.') if scope else []
        for i in range(len(scopes), 0, -1):
            ref = f'{module.name}:{".".join(scopes[:i])}'
            ci = self.classes.get(ref)
            if ci is not None and (head in ci.nested):
                cur = self.classes[ci.nested[head]]
                break
            q = f'{".".join(scopes[:i])}.{head}'
            if q in module.defs and ref not in self.classes:  # function-local def
                node = module.defs[q]
                cur = self.classes[f'{module.name}:{q}'] if isinstance(node, ast.ClassDef) else self.func(
                    f'{module.name}:{q}'
                )
                break
        if cur is None and func is not None and head in func.local_imports:
            cur = self._resolve_abs(func.local_imports[head])
        if cur is None:
            if head in module.defs:
                node = module.defs[head]
                cur = (
                    self.classes[f'{module.name}:{head}']
                    if isinstance(node, ast.ClassDef)
                    else self.func(f'{module.name}:{head}')
                )
            elif head in module.imports:
                cur = self._resolve_abs(module.imports[head])
            elif head in module.assigns:
                cur = ('assign', module, module.assigns[head])
            else:
                cur = head  # builtin / unknown
        for attr in parts[1:]:
            cur = self._getattr(cur, attr)
        return cur

    def resolve_expr(self, fn: FuncInfo, node: ast.AST):
        name = dotted(node)
        if name is None:
            return None
        return self.resolve(fn.module, name, scope=fn.qual, func=fn)

    def resolve_str(self, module: Module, text: str, scope: str = ''):
        """Resolve a string annotation such as 'dsl.Join' or 'flow.Worker'."""
        try:
            node = ast.parse(text.strip(), mode='eval').body
        except SyntaxError:
            return None
        name = dotted(node)
        return self.resolve(module, name, scope=scope) if name else None
