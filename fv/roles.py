"""Composition-code role typing (DESIGN.md 2.7): a small abstract interpreter for the operator library's wiring code.

It executes nothing from the repository: it walks the AST of one wiring function over an abstract domain of trunks,
segments, workers, ports and publishers, interprets each loop once with a symbolic index and records *events*
(subscribe / train / construct / extend / return).  Rules are then stated over the events and the *roles* (data mode and
fold part) derived for each publisher.
"""
from __future__ import annotations

import ast
import itertools
import typing

from . import core

_uid = itertools.count()


class Incomplete(Exception):
    """A construct outside the interpreter's vocabulary (reported as analysis-incomplete by the caller)."""


# ---- abstract values --------------------------------------------------------------------------------
class V:
    def __init__(self):
        self.uid = next(_uid)

    def __repr__(self) -> str:
        return f'{self.__class__.__name__}#{self.uid}'


class VUnknown(V):
    def __init__(self, text: str = ''):
        super().__init__()
        self.text = text

    def __repr__(self):
        return f'?{self.text}'


class VInt(V):
    """Affine integer a*var + b (var None => constant b)."""

    def __init__(self, a: int, var: typing.Optional[str], b: int):
        super().__init__()
        self.a, self.var, self.b = (a, var, b) if a else (0, None, b)

    def __repr__(self):
        if self.var is None:
            return str(self.b)
        return f'{self.a}*{self.var}+{self.b}'

    def key(self):
        return (self.a, self.var, self.b)


class VComposable(V):
    """An operator / expression parameter (scope, pipeline, base): expand() yields a fresh trunk."""

    def __init__(self, name: str):
        super().__init__()
        self.name = name

    def __repr__(self):
        return f'Composable({self.name})'


class VTrunk(V):
    def __init__(self, origin: str, source: typing.Optional[VComposable], loops: tuple, node: ast.AST):
        super().__init__()
        self.origin = origin  # 'head' (flow.Trunk()) | 'expand' | 'derived'
        self.source = source
        self.loops = loops  # loop variables alive when created
        self.node = node
        self.segs = {m: VSeg(self, m) for m in ('apply', 'train', 'label')}

    def __repr__(self):
        return f'Trunk#{self.uid}[{self.origin}{":" + self.source.name if self.source else ""}]'


class VSeg(V):
    def __init__(self, trunk: typing.Optional[VTrunk], mode: str, copy_of: typing.Optional['VSeg'] = None, base: typing.Optional['VSeg'] = None):
        super().__init__()
        self.trunk, self.mode, self.copy_of, self.base = trunk, mode, copy_of, base

    def root(self) -> 'VSeg':
        """The segment whose head this one shares (extend() keeps the head)."""
        cur = self
        while cur.base is not None:
            cur = cur.base
        return cur

    def __repr__(self):
        tag = 'copy-of-' if self.copy_of is not None else ''
        t = self.trunk if self.trunk is not None else '-'
        return f'{tag}{t}.{self.mode}'


class VGroup(V):
    def __init__(self, builder: str, szin, szout, node: ast.AST):
        super().__init__()
        self.builder, self.szin, self.szout, self.node = builder, szin, szout, node
        self.members: list['VWorker'] = []

    def __repr__(self):
        return f'Group#{self.uid}({self.builder})'


_WORKERS: list = []  # every worker value created by the interpretation in progress (reset by interpret())


class VWorker(V):
    def __init__(self, group: VGroup, loops: tuple, node: ast.AST, forked_from: typing.Optional['VWorker'] = None, guards: tuple = ()):
        super().__init__()
        self.group, self.loops, self.node, self.forked_from, self.guards = group, loops, node, forked_from, guards
        group.members.append(self)
        _WORKERS.append(self)

    def __repr__(self):
        return f'Worker#{self.uid}<{self.group!r}>'


class VPort(V):
    def __init__(self, worker: VWorker, index: V):
        super().__init__()
        self.worker, self.index = worker, index

    def __repr__(self):
        return f'{self.worker!r}[{self.index!r}]'


class VPub(V):
    """A publisher: output of a segment, of a worker port, or an opaque publisher parameter."""

    def __init__(self, kind: str, ref, name: str = ''):
        super().__init__()
        self.kind, self.ref, self.name = kind, ref, name  # kind: 'seg' | 'port' | 'param' | 'field'

    def __repr__(self):
        return f'pub({self.name or self.ref!r})'


class VGen(V):
    def __init__(self, group: VGroup):
        super().__init__()
        self.group = group


class VSeq(V):
    """A sequence: explicit items (appended, with the loop context of the append) or an opaque parameter sequence."""

    def __init__(self, name: str = '', items: typing.Optional[list] = None):
        super().__init__()
        self.name = name
        self.items: list[tuple[V, tuple]] = items if items is not None else []
        self.opaque = items is None and bool(name)

    def __repr__(self):
        return f'Seq({self.name or len(self.items)})'


class VNamed(V):
    """An instance of a (named)tuple-like class constructed in the wiring code (Outcome, Fold) or received as a parameter."""

    def __init__(self, cls: str, fields: dict[str, V], node: typing.Optional[ast.AST] = None):
        super().__init__()
        self.cls, self.fields, self.node = cls, fields, node

    def __repr__(self):
        return f'{self.cls}({", ".join(f"{k}={v!r}" for k, v in self.fields.items())})'


class VTuple(V):
    def __init__(self, elts: list[V]):
        super().__init__()
        self.elts = elts


class VClosure(V):
    def __init__(self, node: ast.AST, env: dict):
        super().__init__()
        self.node, self.env = node, env


class VBuilder(V):
    def __init__(self, text: str):
        super().__init__()
        self.text = text

    def __repr__(self):
        return f'builder({self.text})'


class Event:
    def __init__(self, kind: str, node: ast.AST, loops: tuple, guards: tuple, **data):
        self.kind, self.node, self.loops, self.guards, self.data = kind, node, loops, guards, data

    def __repr__(self):
        return f'<{self.kind} {self.data} loops={[l[0] for l in self.loops]}>'


# ---- interpreter ------------------------------------------------------------------------------------
class Interpreter:
    def __init__(self, prog: core.Program, fn: core.FuncInfo, params: typing.Optional[dict[str, V]] = None):
        self.prog = prog
        self.fn = fn
        self.events: list[Event] = []
        self.loops: list[tuple[str, str]] = []  # (loop var, iterable description)
        self.guards: list[str] = []
        self.returned: list[tuple[V, ast.AST]] = []
        self.incomplete: list[str] = []
        self.env: dict[str, V] = {}
        for p in fn.params:
            name = p.arg
            if params and name in params:
                self.env[name] = params[name]
            elif name in ('self', 'cls'):
                self.env[name] = VNamed('self', {})
            else:
                ann = core.src(p.annotation) if p.annotation is not None else ''
                self.env[name] = self._param_value(name, ann)

    def _param_value(self, name: str, ann: str) -> V:
        if 'Sequence' in ann or 'Iterable' in ann or name in ('bases', 'folds', 'outcomes'):
            return VSeq(name)
        if 'Composable' in ann:
            return VComposable(name)
        if 'Publishable' in ann:
            return VPub('param', name, name)
        if 'Segment' in ann:
            return VSeg(None, name)
        return VUnknown(name)

    # -- helpers
    def ctx(self) -> tuple:
        return tuple(self.loops)

    def emit(self, kind: str, node: ast.AST, **data) -> None:
        self.events.append(Event(kind, node, self.ctx(), tuple(self.guards), **data))

    def run(self) -> 'Interpreter':
        self.block(self.fn.body, self.env)
        return self

    def block(self, body: list[ast.stmt], env: dict) -> None:
        for st in body:
            self.stmt(st, env)

    def stmt(self, st: ast.stmt, env: dict) -> None:
        if isinstance(st, ast.Expr):
            if isinstance(st.value, ast.Constant):
                return
            self.eval(st.value, env)
        elif isinstance(st, (ast.Assign, ast.AnnAssign)):
            if isinstance(st, ast.AnnAssign) and st.value is None:
                return
            val = self.eval(st.value, env)
            targets = st.targets if isinstance(st, ast.Assign) else [st.target]
            for t in targets:
                self.bind(t, val, env)
        elif isinstance(st, ast.AugAssign):
            self.eval(st.value, env)
        elif isinstance(st, core.FUNC):
            env[st.name] = VClosure(st, env)
        elif isinstance(st, ast.For):
            self.loop(st, env)
        elif isinstance(st, ast.If):
            text = core.src(st.test)
            self.eval(st.test, env)
            self.guards.append(text)
            self.block(st.body, env)
            self.guards.pop()
            self.guards.append(f'not ({text})')
            self.block(st.orelse, env)
            self.guards.pop()
        elif isinstance(st, ast.Return):
            self.returned.append((self.eval(st.value, env) if st.value is not None else VUnknown('None'), st))
        elif isinstance(st, (ast.Assert, ast.Pass, ast.Raise, ast.Import, ast.ImportFrom)):
            return
        elif isinstance(st, ast.With):
            self.block(st.body, env)
        else:
            self.incomplete.append(f'statement {type(st).__name__} at line {st.lineno}')

    def bind(self, target: ast.AST, val: V, env: dict) -> None:
        if isinstance(target, ast.Name):
            env[target.id] = val
        elif isinstance(target, (ast.Tuple, ast.List)) and isinstance(val, VSeq) and sum(isinstance(t, ast.Starred) for t in target.elts) == 1 and isinstance(target.elts[-1], ast.Starred):
            # first, second, *rest = seq
            for k, t in enumerate(target.elts[:-1]):
                self.bind(t, VNamed(f'elem:{val.name}', {'#seq': val, '#index': VInt(0, None, k)}), env)
            self.bind(target.elts[-1].value, VNamed('slice', {'#slice': val, '#lower': VInt(0, None, len(target.elts) - 1), '#upper': VUnknown('end')}), env)
        elif isinstance(target, (ast.Tuple, ast.List)):
            elts = val.elts if isinstance(val, VTuple) else [VUnknown() for _ in target.elts]
            for t, v in zip(target.elts, elts):
                self.bind(t, v, env)
        elif isinstance(target, ast.Attribute):
            return  # self._x = ... : not tracked
        elif isinstance(target, ast.Subscript):
            return

    def loop(self, st: ast.For, env: dict) -> None:
        it = st.iter
        desc = core.src(it)
        bound: list[tuple[ast.AST, V]] = []
        var = None
        if isinstance(it, ast.Call) and core.call_tail(it) == 'range':
            var = core.src(st.target)
            bound.append((st.target, VInt(1, var, 0)))
        elif isinstance(it, ast.Call) and core.call_tail(it) == 'enumerate':
            if not (isinstance(st.target, ast.Tuple) and len(st.target.elts) == 2):
                raise Incomplete(f'enumerate target at line {st.lineno}')
            var = core.src(st.target.elts[0])
            start = 0
            for kw in it.keywords:
                if kw.arg == 'start' and isinstance(kw.value, ast.Constant):
                    start = kw.value.value
            if len(it.args) > 1 and isinstance(it.args[1], ast.Constant):
                start = it.args[1].value
            bound.append((st.target.elts[0], VInt(1, var, 0)))
            inner = it.args[0]
            if isinstance(inner, ast.Call) and core.call_tail(inner) == 'zip':
                elems = [self.element(self.eval(a, env), var) for a in inner.args]
                bound.append((st.target.elts[1], VTuple(elems)))
            else:
                # the counter variable itself is the symbol: position = counter - start (a slice adds its lower bound)
                bound.append((st.target.elts[1], self.element(self.eval(inner, env), var, offset=-start)))
            desc = f'enumerate:{start}:' + core.src(inner)
        elif isinstance(it, ast.Call) and core.call_tail(it) == 'zip':
            var = '_zip' + str(st.lineno)
            elems = [self.element(self.eval(a, env), var) for a in it.args]
            bound.append((st.target, VTuple(elems)))
        else:
            var = core.src(st.target) if isinstance(st.target, ast.Name) else '_it' + str(st.lineno)
            bound.append((st.target, self.element(self.eval(it, env), var)))
        self.loops.append((var, desc))
        for t, v in bound:
            self.bind(t, v, env)
        self.block(st.body, env)
        self.loops.pop()
        self.block(st.orelse, env)

    def element(self, seq: V, var: str, offset: int = 0) -> V:
        """Generic element of ``seq`` at symbolic position ``var``."""
        if isinstance(seq, VGen):
            return VWorker(seq.group, self.ctx() + ((var, 'gen'),), seq.group.node, forked_from=seq.group.members[0] if seq.group.members else None)
        if isinstance(seq, VSeq):
            if seq.items:
                # items appended in a loop over k: the element at position var is the appended value with k := var
                val, loops = seq.items[-1]
                if loops:
                    return rename(val, loops[-1][0], var)
                return val
            if seq.name == 'bases':
                return VComposable(f'bases[{var}]')
            if seq.name == 'folds':
                def rp(mode, part, label):
                    return VPub('role', Role(mode, part if part == 'WHOLE' else (part, var), (label,)), label)
                return VNamed('Fold', {
                    'train': VNamed('Fold.Train', {'apply': rp(APPLY, 'WHOLE', f'folds[{var}].train.apply'), 'train': rp(TRAIN, 'FOLD_TRAIN', f'folds[{var}].train.train'), 'label': rp(LABEL, 'FOLD_TRAIN', f'folds[{var}].train.label')}),
                    'test': VNamed('Fold.Test', {'train': rp(TRAIN, 'FOLD_TEST', f'folds[{var}].test.train'), 'label': rp(LABEL, 'FOLD_TEST', f'folds[{var}].test.label')}),
                })
            return VNamed(f'elem:{seq.name}', {'#seq': seq, '#index': VInt(1, var, offset)})
        if isinstance(seq, VNamed) and '#slice' in seq.fields:
            base = seq.fields['#slice']
            lower = seq.fields.get('#lower')
            if not (isinstance(lower, VInt) and lower.var is None):
                return VUnknown(f'elem({seq!r})')
            return VNamed(f'elem:{getattr(base, "name", "")}', {'#seq': base, '#index': VInt(1, var, offset + lower.b)})
        return VUnknown(f'elem({seq!r})')

    # -- expressions
    def eval(self, node: ast.AST, env: dict) -> V:
        if isinstance(node, ast.Constant):
            if isinstance(node.value, int) and not isinstance(node.value, bool):
                return VInt(0, None, node.value)
            return VUnknown(repr(node.value))
        if isinstance(node, ast.Name):
            if node.id in env:
                return env[node.id]
            return VUnknown(node.id)
        if isinstance(node, ast.NamedExpr):
            v = self.eval(node.value, env)
            self.bind(node.target, v, env)
            return v
        if isinstance(node, ast.Tuple):
            return VTuple([self.eval(e, env) for e in node.elts])
        if isinstance(node, ast.List):
            s = VSeq()
            for e in node.elts:
                s.items.append((self.eval(e, env), self.ctx()))
            return s
        if isinstance(node, ast.BinOp):
            l, r = self.eval(node.left, env), self.eval(node.right, env)
            if isinstance(l, VInt) and isinstance(r, VInt):
                if isinstance(node.op, ast.Add) and (l.var is None or r.var is None or l.var == r.var):
                    return VInt(l.a + r.a, l.var or r.var, l.b + r.b)
                if isinstance(node.op, ast.Sub) and (r.var is None or l.var == r.var):
                    return VInt(l.a - r.a, l.var or r.var, l.b - r.b)
                if isinstance(node.op, ast.Mult):
                    if l.var is None:
                        return VInt(l.b * r.a, r.var, l.b * r.b)
                    if r.var is None:
                        return VInt(r.b * l.a, l.var, r.b * l.b)
                if isinstance(node.op, ast.LShift) and r.var is None:
                    return VInt(l.a << r.b, l.var, l.b << r.b)
            return VUnknown(core.src(node))
        if isinstance(node, ast.Attribute):
            return self.attr(self.eval(node.value, env), node.attr, node)
        if isinstance(node, ast.Subscript):
            base = self.eval(node.value, env)
            if isinstance(node.slice, ast.Slice):
                return VNamed('slice', {'#slice': base, '#lower': self.eval(node.slice.lower, env) if node.slice.lower else VInt(0, None, 0), '#upper': self.eval(node.slice.upper, env) if node.slice.upper else VUnknown('end')})
            idx = self.eval(node.slice, env)
            if isinstance(base, VWorker):
                return VPort(base, idx)
            if isinstance(base, VSeq) and isinstance(idx, VInt):
                if idx.var is None and base.items and 0 <= idx.b < len(base.items):
                    return base.items[idx.b][0]
                return VNamed(f'elem:{base.name}', {'#seq': base, '#index': idx})
            if isinstance(base, VUnknown) and 'kwargs' in base.text:
                return VBuilder(core.src(node))
            return VUnknown(core.src(node))
        if isinstance(node, ast.Call):
            return self.call(node, env)
        if isinstance(node, ast.IfExp):
            self.eval(node.test, env)
            a, b = self.eval(node.body, env), self.eval(node.orelse, env)
            return a if not isinstance(a, VUnknown) else b
        if isinstance(node, (ast.BoolOp, ast.Compare, ast.UnaryOp, ast.JoinedStr, ast.Lambda, ast.Dict, ast.Set, ast.Starred, ast.ListComp, ast.GeneratorExp, ast.SetComp, ast.DictComp)):
            return VUnknown(core.src(node)[:40])
        return VUnknown(type(node).__name__)

    def attr(self, base: V, name: str, node: ast.AST) -> V:
        if isinstance(base, VTrunk) and name in base.segs:
            return base.segs[name]
        if isinstance(base, VSeg) and name == 'publisher':
            return VPub('seg', base)
        if isinstance(base, VPort) and name == 'publisher':
            return VPub('port', base)
        if isinstance(base, VNamed):
            if name in base.fields:
                return base.fields[name]
            if base.cls == 'self':
                return VBuilder(f'self.{name}')
            if base.cls.startswith('elem:') or base.cls in ('param',):
                return VPub('field', (base, name), f'{base!r}.{name}') if name in ('true', 'pred') else VNamed('field', {'#of': base, '#name': VUnknown(name)})
            if base.cls == 'field':
                return VPub('field', (base.fields['#of'], core.src(node).split('.', 1)[1] if '.' in core.src(node) else name), core.src(node))
        return ('bound', base, name)  # type: ignore[return-value]

    def call(self, node: ast.Call, env: dict) -> V:
        func = node.func
        tail = core.call_tail(node)
        # constructors / factories by (resolved) name
        name = core.dotted(func) or ''
        if isinstance(func, ast.Attribute) or isinstance(func, ast.Name):
            if name.endswith('Trunk') and (name.split('.')[-1] == 'Trunk'):
                if not node.args and not node.keywords:
                    return VTrunk('head', None, self.ctx(), node)
                kw = {k.arg: self.eval(k.value, env) for k in node.keywords}
                pos = [self.eval(a, env) for a in node.args]
                for m, v in zip(('apply', 'train', 'label'), pos):
                    kw[m] = v
                t = VTrunk('derived', None, self.ctx(), node)
                self.emit('trunk', node, args=kw, result=t)
                return t
            if name.split('.')[-1] == 'Worker' and tail == 'Worker':
                args = [self.eval(a, env) for a in node.args]
                b = args[0] if args else VUnknown()
                g = VGroup(core.src(node.args[0]) if node.args else '?', args[1] if len(args) > 1 else None, args[2] if len(args) > 2 else None, node)
                w = VWorker(g, self.ctx(), node, guards=tuple(self.guards))
                self.emit('worker', node, worker=w, builder=core.src(node.args[0]) if node.args else '')
                return w
            if name.endswith('Worker.fgen'):
                args = [self.eval(a, env) for a in node.args]
                g = VGroup(core.src(node.args[0]), args[1] if len(args) > 1 else None, args[2] if len(args) > 2 else None, node)
                VWorker(g, self.ctx(), node)
                return VGen(g)
            if name.split('.')[-1] in ('Outcome', 'Fold') and isinstance(self.prog.resolve_expr(self.fn, func), core.ClassInfo):
                ci = self.prog.resolve_expr(self.fn, func)
                fields = self._ctor_params(ci)
                vals = {}
                for f, a in zip(fields, node.args):
                    vals[f] = self.eval(a, env)
                for k in node.keywords:
                    vals[k.arg] = self.eval(k.value, env)
                v = VNamed(ci.name, vals, node)
                if ci.name == 'Fold':
                    v.fields['train'] = VNamed('Fold.Train', {'apply': vals.get('train_apply'), 'train': vals.get('train_train'), 'label': vals.get('train_label')})
                    v.fields['test'] = VNamed('Fold.Test', {'train': vals.get('test_train'), 'label': vals.get('test_label')})
                self.emit('construct', node, cls=ci.name, value=v)
                return v
        if isinstance(func, ast.Name) and func.id in env and isinstance(env[func.id], VClosure):
            return self.inline(env[func.id], node, env)
        if isinstance(func, ast.Name) and func.id in ('tuple', 'list') and node.args:
            return self.eval(node.args[0], env)
        if isinstance(func, ast.Name) and func.id in ('range', 'len', 'enumerate', 'zip', 'isinstance', 'id', 'any', 'all'):
            for a in node.args:
                self.eval(a, env)
            return VUnknown(core.src(node)[:30])
        if isinstance(func, ast.Attribute):
            base = self.eval(func.value, env)
            args = [self.eval(a, env) for a in node.args]
            kwargs = {k.arg: self.eval(k.value, env) for k in node.keywords if k.arg}
            m = func.attr
            if isinstance(base, VComposable) and m == 'expand':
                t = VTrunk('expand', base, self.ctx(), node)
                self.emit('expand', node, trunk=t, source=base)
                return t
            if isinstance(base, VWorker):
                if m == 'fork':
                    w = VWorker(base.group, self.ctx(), node, forked_from=base, guards=tuple(self.guards))
                    return w
                if m == 'train':
                    self.emit('train', node, worker=base, features=args[0] if args else kwargs.get('train'), labels=args[1] if len(args) > 1 else kwargs.get('label'))
                    return VUnknown()
            if isinstance(base, VPort) and m == 'subscribe':
                self.emit('subscribe', node, target=base, pub=as_pub(args[0]))
                return VUnknown()
            if isinstance(base, VSeg):
                if m == 'subscribe':
                    self.emit('subscribe', node, target=base, pub=as_pub(args[0]))
                    return VUnknown()
                if m == 'copy':
                    return VSeg(base.trunk, base.mode, copy_of=base)
                if m == 'extend':
                    right = args[0] if args else kwargs.get('right')
                    tailv = kwargs.get('tail', args[1] if len(args) > 1 else None)
                    out = VSeg(base.trunk, base.mode, base=base)
                    self.emit('seg-extend', node, seg=base, right=right, tail=tailv, result=out)
                    if right is not None:
                        self.emit('subscribe', node, target=right if isinstance(right, VSeg) else (VPort(right, VInt(0, None, 0)) if isinstance(right, VWorker) else right), pub=VPub('seg', base))
                    return out
            if isinstance(base, VTrunk) and m in ('extend', 'use'):
                kw = dict(kwargs)
                for mm, v in zip(('apply', 'train', 'label'), args):
                    kw[mm] = v
                t = VTrunk('derived', base.source, self.ctx(), node)
                self.emit('trunk-' + m, node, trunk=base, args=kw, result=t)
                if m == 'extend':
                    for mm, v in kw.items():
                        if v is None or isinstance(v, VUnknown) and v.text == 'None':
                            continue
                        tgt = v if isinstance(v, VSeg) else (VPort(v, VInt(0, None, 0)) if isinstance(v, VWorker) else v)
                        self.emit('subscribe', node, target=tgt, pub=VPub('seg', base.segs[mm]), via=f'Trunk.extend({mm})')
                return t
            if m == 'setdefault' and len(args) == 2:
                return args[1]
            if isinstance(base, VSeq) and m == 'append':
                base.items.append((args[0], self.ctx()))
                return VUnknown()
            if isinstance(base, VNamed) and base.cls in ('Fold',) and m == 'publish':
                ci = self.prog.classes.get('forml.pipeline.ensemble._stacking:Fold')
                if ci is not None and 'publish' in ci.methods:
                    fi = self.prog.func(f'{ci.ref}.publish')
                    sub = {'self': base}
                    for p, a in zip([p for p in fi.param_names if p != 'self'], args):
                        sub[p] = a
                    sub.update(kwargs)
                    self.block(fi.body, sub)
                    return VUnknown()
            if isinstance(base, tuple) and base and base[0] == 'bound':
                # method call on something we do not model: evaluate for nested effects only
                return VUnknown(core.src(node)[:40])
            if isinstance(base, VNamed) and base.cls == 'self':
                # self._builder(data_folds) / self._metric.score(...) etc: not modelled
                self.emit('self-call', node, method=m, args=args, kwargs=kwargs)
                return VUnknown(core.src(node)[:40])
            if isinstance(base, VBuilder):
                self.emit('builder-call', node, builder=base.text, method=m, args=args, kwargs=kwargs)
                return VBuilder(core.src(node)[:60])
            return VUnknown(core.src(node)[:40])
        for a in node.args:
            self.eval(a, env)
        return VUnknown(core.src(node)[:40])

    def _ctor_params(self, ci: core.ClassInfo) -> list[str]:
        from . import calls as callsmod

        new = ci.methods.get('__new__') or ci.methods.get('__init__')
        if new is not None:
            return [a.arg for a in list(new.args.posonlyargs) + list(new.args.args)][1:]
        return callsmod.namedtuple_fields(ci) or list(ci.annotations)

    def inline(self, clo: VClosure, node: ast.Call, env: dict) -> V:
        fn = clo.node
        sub = dict(clo.env)
        sub.update({k: v for k, v in env.items() if k not in sub})
        params = [a.arg for a in fn.args.args]
        for p, a in zip(params, node.args):
            sub[p] = self.eval(a, env)
        for k in node.keywords:
            if k.arg:
                sub[k.arg] = self.eval(k.value, env)
        saved = self.returned
        self.returned = []
        self.block(fn.body, sub)
        out = self.returned[-1][0] if self.returned else VUnknown()
        self.returned = saved
        # closures may rebind enclosing names they assign (python would need nonlocal; mirror only reads)
        return out


def as_pub(v: V) -> V:
    if isinstance(v, VSeg):
        return VPub('seg', v)
    if isinstance(v, VPort):
        return VPub('port', v)
    return v


def rename(val: V, old: str, new: str):
    """Structural copy of a value with loop variable ``old`` renamed to ``new`` inside affine indices."""
    if isinstance(val, VInt):
        return VInt(val.a, new if val.var == old else val.var, val.b)
    if isinstance(val, VPort):
        p = VPort.__new__(VPort)
        p.uid, p.worker, p.index = val.uid, val.worker, rename(val.index, old, new)
        return p
    if isinstance(val, VPub):
        p = VPub.__new__(VPub)
        p.uid, p.kind, p.name = val.uid, val.kind, val.name
        p.ref = rename(val.ref, old, new) if isinstance(val.ref, V) else val.ref
        return p
    if isinstance(val, VNamed):
        n = VNamed.__new__(VNamed)
        n.uid, n.cls, n.node = val.uid, val.cls, val.node
        n.fields = {k: rename(v, old, new) if isinstance(v, V) else v for k, v in val.fields.items()}
        n.renamed = (old, new)  # type: ignore[attr-defined]
        return n
    return val


# ---- roles ------------------------------------------------------------------------------------------
TRAIN, APPLY, LABEL = 'TRAIN', 'APPLY', 'LABEL'
MODE = {'train': TRAIN, 'apply': APPLY, 'label': LABEL}


class Role(typing.NamedTuple):
    mode: typing.Optional[str]  # which data stream: TRAIN features / APPLY features / LABEL
    part: typing.Any  # 'WHOLE' | ('FOLD_TRAIN', var) | ('FOLD_TEST', var) | None (unknown)
    via: tuple = ()  # segments / workers the data flowed through (for reports)

    def short(self) -> str:
        p = self.part if isinstance(self.part, str) or self.part is None else f'{self.part[0]}({self.part[1]})'
        return f'{self.mode}/{p}'


class Roles:
    def __init__(self, interp: Interpreter, param_roles: typing.Optional[dict[str, Role]] = None):
        self.i = interp
        self.param_roles = param_roles or {}
        self.subs: dict[int, list[Event]] = {}
        for e in interp.events:
            if e.kind == 'subscribe':
                tgt = e.data['target']
                key = self._tkey(tgt)
                if key is not None:
                    self.subs.setdefault(key, []).append(e)

    @staticmethod
    def _tkey(tgt):
        if isinstance(tgt, VSeg):
            return ('seg', tgt.root().uid)
        if isinstance(tgt, VPort):
            idx = tgt.index.key() if isinstance(tgt.index, VInt) else None
            return ('port', tgt.worker.uid, idx)
        return None

    def inputs(self, tgt) -> list[V]:
        return [e.data['pub'] for e in self.subs.get(self._tkey(tgt), [])]

    def worker_inputs(self, w: VWorker) -> list[tuple[typing.Any, V]]:
        out = []
        for key, evs in self.subs.items():
            if key[0] == 'port' and key[1] == w.uid:
                out += [(key[2], e.data['pub']) for e in evs]
        return out

    def is_splitter(self, w: VWorker) -> bool:
        so = w.group.szout
        return isinstance(so, VInt) and so.var is None and so.b > 1 or (isinstance(so, VUnknown) and so.text.replace(' ', '').startswith('2*'))

    def role(self, pub: V, depth: int = 0) -> Role:
        if depth > 12 or pub is None:
            return Role(None, None)
        if isinstance(pub, VSeg):
            pub = VPub('seg', pub)
        if isinstance(pub, VPort):
            pub = VPub('port', pub)
        if not isinstance(pub, VPub):
            return Role(None, None)
        if pub.kind == 'role':
            return pub.ref
        if pub.kind == 'param':
            return self.param_roles.get(pub.ref, Role(None, None))
        if pub.kind == 'field':
            base, name = pub.ref
            return self.param_roles.get(f'.{name}', Role(None, None))
        if pub.kind == 'seg':
            seg: VSeg = pub.ref
            root = seg.root()
            if seg.copy_of is not None or root.copy_of is not None:
                ins = self.inputs(root)
                if ins:
                    r = self.role(ins[-1], depth + 1)
                    return Role(r.mode, r.part, r.via + (repr(seg),))
                return Role(None, None)
            if root.trunk is not None and root.trunk.origin == 'head':
                return Role(MODE[root.mode], 'WHOLE', (repr(seg),))
            ins = self.inputs(root)
            if ins:
                r = self.role(ins[-1], depth + 1)
                return Role(r.mode, r.part, r.via + (repr(seg),))
            if root.trunk is None:
                return self.param_roles.get(root.mode, Role(None, None))
            return Role(MODE.get(root.mode), 'WHOLE', (repr(seg),))
        if pub.kind == 'port':
            port: VPort = pub.ref
            w = port.worker
            ins = self.worker_inputs(w)
            idx = port.index
            if isinstance(idx, VInt) and idx.var is not None and idx.a == 2 and idx.b in (0, 1):
                src = [p for k, p in ins if k == (0, None, 0)] or [p for _, p in ins]
                base = self.role(src[0], depth + 1) if src else Role(None, None)
                return Role(base.mode, ('FOLD_TRAIN' if idx.b == 0 else 'FOLD_TEST', idx.var), base.via + (repr(w),))
            if isinstance(idx, VInt) and idx.var is not None:
                return Role(None, ('OTHER-INDEX', repr(idx)))
            rs = [self.role(p, depth + 1) for _, p in ins]
            if rs and all(r[:2] == rs[0][:2] for r in rs):
                return Role(rs[0].mode, rs[0].part, rs[0].via + (repr(w),))
            return Role(None, None)
        return Role(None, None)


def interpret(prog: core.Program, fn: core.FuncInfo, params: typing.Optional[dict[str, V]] = None) -> Interpreter:
    it = Interpreter(prog, fn, params)
    del _WORKERS[:]
    try:
        it.run()
    except Incomplete as err:
        it.incomplete.append(str(err))
    it.workers = list(_WORKERS)
    return it
