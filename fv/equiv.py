"""Refactoring equivalence (DESIGN 2.13).

The rules are written against the shapes of the reference tree (the tree of the last ``fix:`` commit).  A behaviour
preserving refactoring of a function (a temporary introduced, a local renamed, a guard clause instead of an else arm, a
conditional expression instead of an if statement, De Morgan, a helper extracted or inlined, a loop instead of a
comprehension ...) must not change any verdict.  Instead of teaching every rule every spelling, each *changed* function is
brought into a normal form by semantics-preserving rewrites, and so is its reference version; when the two normal forms
are identical the function *is* the reference function as far as behaviour goes, and the rules are given the reference
spelling of it (positions mapped to the current file).  When the normal forms differ - every semantic change, and every
refactoring the rewrites cannot undo - the current text is analysed as it stands.

Every rewrite below is an equivalence of Python semantics under stated side conditions; an unsound rewrite would hide a
real change, so each is conservative (evaluation order of calls is never changed, a call is never duplicated, dropped or
made conditional).  ``tools/nfscan.py`` checks on every AST mutant of the repository that no mutant is ever equated with its
original.
"""
import ast
import copy
import gzip
import json
import os
import typing

FUNC = (ast.FunctionDef, ast.AsyncFunctionDef)
_BLOCKS = ('body', 'orelse', 'finalbody')
_PINNED_SRC: typing.Optional[dict] = None


def pinned_sources() -> dict:
    """{module name -> source text} of the reference tree (fv/pinned_src.json.gz, tools/mkpinned.py)."""
    global _PINNED_SRC
    if _PINNED_SRC is None:
        path = os.path.join(os.path.dirname(os.path.abspath(__file__)), 'pinned_src.json.gz')
        try:
            with gzip.open(path, 'rt', encoding='utf-8') as fh:
                _PINNED_SRC = json.load(fh)
        except (OSError, ValueError, EOFError):
            _PINNED_SRC = {}
    return _PINNED_SRC


# --------------------------------------------------------------------------------------------------
# small helpers
# --------------------------------------------------------------------------------------------------
def _clone(node):
    from . import core

    return core.clone(node)


def _blocks(node: ast.AST) -> typing.Iterator[list]:
    """Every statement list below ``node`` (handlers and match cases included), innermost last."""
    for n in ast.walk(node):
        for f in _BLOCKS:
            seq = getattr(n, f, None)
            if isinstance(seq, list) and seq and isinstance(seq[0], ast.stmt):
                yield seq
        if isinstance(n, ast.Try):
            for h in n.handlers:
                pass  # handler bodies are reached through ast.walk (ExceptHandler has .body)


def _code_blocks(node: ast.AST) -> typing.Iterator[list]:
    """Statement lists of executable code below ``node``: like ``_blocks`` but class bodies (and what is nested in them) are
    left out - a method is not a local function."""
    stack = [node]
    while stack:
        n = stack.pop()
        for f in _BLOCKS:
            seq = getattr(n, f, None)
            if isinstance(seq, list) and seq and isinstance(seq[0], ast.stmt):
                yield seq
        for c in ast.iter_child_nodes(n):
            if not isinstance(c, ast.ClassDef):
                stack.append(c)


def _terminates(seq: list) -> bool:
    if not seq:
        return False
    last = seq[-1]
    if isinstance(last, (ast.Return, ast.Raise, ast.Continue, ast.Break)):
        return True
    if isinstance(last, ast.If) and last.orelse:
        return _terminates(last.body) and _terminates(last.orelse)
    return False


def _names(node: ast.AST) -> set:
    return {x.id for x in ast.walk(node) if isinstance(x, ast.Name)}


def _is_name_pure(e: ast.AST) -> bool:
    """Names, constants and tuples of them: evaluating it anywhere, any number of times, gives the same value as long as the
    names are not re-bound."""
    if isinstance(e, (ast.Name, ast.Constant)):
        return True
    if isinstance(e, ast.Tuple):
        return all(_is_name_pure(x) for x in e.elts)
    if isinstance(e, ast.Compare) and all(isinstance(o, (ast.Is, ast.IsNot)) for o in e.ops):
        return all(_is_name_pure(x) for x in [e.left] + e.comparators)  # identity tests run no user code
    if isinstance(e, ast.UnaryOp) and isinstance(e.op, ast.Not):
        return isinstance(e.operand, ast.Compare) and _is_name_pure(e.operand)
    if _is_int_arith(e) and not isinstance(e, (ast.Name, ast.Constant)):
        return True  # + - * over loop counters and integer literals: an immutable int, no user code, nothing raised
    return False


_INT_NAMES: set = set()  # names of the function being processed that are known to hold an int (range()/enumerate() counters)


def _is_int_arith(e: ast.AST) -> bool:
    if isinstance(e, ast.Constant):
        return type(e.value) is int
    if isinstance(e, ast.Name):
        return e.id in _INT_NAMES
    if isinstance(e, ast.BinOp) and isinstance(e.op, (ast.Add, ast.Sub, ast.Mult)):
        return _is_int_arith(e.left) and _is_int_arith(e.right)
    return False


def _is_chain(e: ast.AST) -> bool:
    """A read-only attribute chain ``name.a.b`` / constant-key item ``name['k']`` (or a name-pure expression)."""
    while isinstance(e, (ast.Attribute, ast.Subscript)):
        if isinstance(e, ast.Subscript) and not isinstance(e.slice, ast.Constant):
            return False
        e = e.value
    return isinstance(e, (ast.Name, ast.Constant))


def _bare_names(e: ast.AST) -> list:
    """Name nodes of ``e`` that are not merely the base of an attribute / item read (``x`` in ``f(x)``, not in ``f(x.a)``)."""
    out = []

    def visit(n: ast.AST, under_chain: bool) -> None:
        if isinstance(n, ast.Name):
            if not under_chain:
                out.append(n)
            return
        if isinstance(n, (ast.Attribute, ast.Subscript)):
            visit(n.value, True)
            if isinstance(n, ast.Subscript):
                visit(n.slice, False)
            return
        for c in ast.iter_child_nodes(n):
            visit(c, False)

    visit(e, False)
    return out


def _has_call(e: ast.AST) -> bool:
    return any(isinstance(x, (ast.Call, ast.Await, ast.Yield, ast.YieldFrom, ast.NamedExpr)) for x in ast.walk(e))


def _params(fn: ast.AST) -> set:
    a = fn.args
    out = {x.arg for x in list(a.posonlyargs) + list(a.args) + list(a.kwonlyargs)}
    if a.vararg:
        out.add(a.vararg.arg)
    if a.kwarg:
        out.add(a.kwarg.arg)
    return out


def _postorder(node: ast.AST, out: list) -> None:
    """Nodes of an expression/statement header in (approximate) completion order: a node is listed after its operands."""
    if isinstance(node, ast.Assign):
        _postorder(node.value, out)
        for t in node.targets:
            _postorder(t, out)
    elif isinstance(node, ast.AugAssign):
        _postorder(node.target, out)
        _postorder(node.value, out)
    elif isinstance(node, (ast.ListComp, ast.SetComp, ast.GeneratorExp, ast.DictComp)):
        for g in node.generators:
            _postorder(g.iter, out)
            _postorder(g.target, out)
            for c in g.ifs:
                _postorder(c, out)
        for f in ('key', 'value', 'elt'):
            if hasattr(node, f):
                _postorder(getattr(node, f), out)
    elif isinstance(node, ast.Dict):
        for k, v in zip(node.keys, node.values):
            if k is not None:
                _postorder(k, out)
            _postorder(v, out)
    else:
        for child in ast.iter_child_nodes(node):
            _postorder(child, out)
    out.append(node)


def _header(st: ast.stmt) -> list:
    """The expressions a statement evaluates itself, once, unconditionally, before any nested block runs."""
    if isinstance(st, (ast.Assign, ast.AugAssign, ast.Expr, ast.Return, ast.Raise, ast.Delete, ast.Assert)):
        return [st]
    if isinstance(st, ast.If):
        return [st.test]
    if isinstance(st, (ast.For, ast.AsyncFor)):
        return [st.iter]
    if isinstance(st, (ast.With, ast.AsyncWith)):
        return [st.items[0].context_expr] if st.items else []
    return []


def _conditional_position(root: ast.AST, use: ast.AST) -> bool:
    """Is ``use`` evaluated conditionally / repeatedly / lazily inside ``root`` (an arm of a conditional expression, a later
    operand of and/or, inside a comprehension other than its first iterable, a lambda body)?"""
    path = []

    def find(n: ast.AST) -> bool:
        if n is use:
            return True
        for c in ast.iter_child_nodes(n):
            if find(c):
                path.append((n, c))
                return True
        return False

    find(root)
    for par, child in path:
        if isinstance(par, ast.IfExp) and child is not par.test:
            return True
        if isinstance(par, ast.BoolOp) and child is not par.values[0]:
            return True
        if isinstance(par, ast.Lambda):
            return True
        if isinstance(par, (ast.ListComp, ast.SetComp, ast.GeneratorExp, ast.DictComp)):
            return True  # child is elt/key/value (generators are reached through ast.comprehension below)
        if isinstance(par, ast.comprehension):
            return True  # refined by the caller for the very first iterable
        if isinstance(par, ast.Compare) and child is not par.left and len(par.ops) > 1:
            return True
    return False


def _first_iter_of(root: ast.AST, use: ast.AST) -> bool:
    """``use`` lies in the first iterable of a comprehension that is itself unconditionally evaluated in ``root``."""
    for n in ast.walk(root):
        if isinstance(n, (ast.ListComp, ast.SetComp, ast.GeneratorExp, ast.DictComp)):
            it = n.generators[0].iter
            if any(x is use for x in ast.walk(it)):
                probe = ast.Name(id='__probe__', ctx=ast.Load())
                # the comprehension node itself must be unconditional, and the use unconditional within the iterable
                return not _conditional_position(root, n) and not _conditional_position(it, use)
    return False


# --------------------------------------------------------------------------------------------------
# rewrites
# --------------------------------------------------------------------------------------------------
def _is_noop(st: ast.AST) -> bool:
    if isinstance(st, ast.Pass):
        return True
    if isinstance(st, ast.Expr) and isinstance(st.value, ast.Constant):
        return True  # docstrings and bare constants
    if isinstance(st, ast.Expr) and isinstance(st.value, ast.Call):
        f = st.value.func
        parts = []
        while isinstance(f, ast.Attribute):
            parts.append(f.attr)
            f = f.value
        if isinstance(f, ast.Name) and f.id == 'LOGGER' and len(parts) == 1 and parts[0] in ('debug', 'info', 'warning', 'error', 'critical', 'exception', 'log'):
            return True
    return False


def strip_meta(fn: ast.AST) -> None:
    """Annotations, docstrings, ``pass`` and diagnostic logging carry no behaviour."""
    for n in ast.walk(fn):
        if isinstance(n, FUNC + (ast.Lambda,)):
            for a in ast.walk(n.args):
                if isinstance(a, ast.arg):
                    a.annotation = None
                    a.type_comment = None
            if isinstance(n, FUNC):
                n.returns = None
                n.type_comment = None
    for n in ast.walk(fn):
        for f in _BLOCKS:
            seq = getattr(n, f, None)
            if not (isinstance(seq, list) and seq and isinstance(seq[0], ast.stmt)):
                continue
            new = []
            for st in seq:
                if _is_noop(st):
                    continue
                if isinstance(st, ast.AnnAssign):
                    if st.value is None:
                        continue
                    st = ast.copy_location(ast.Assign(targets=[st.target], value=st.value), st)
                new.append(st)
            if not new and f == 'body':
                new = [ast.copy_location(ast.Pass(), seq[0])]
            seq[:] = new


def defs_to_lambdas(fn: ast.AST) -> None:
    """``def f(a): return E`` nested in a function (no decorator, not a generator) is ``f = lambda a: E``."""
    for seq in list(_code_blocks(fn)):
        for i, st in enumerate(seq):
            if isinstance(st, ast.FunctionDef) and st is not fn and not st.decorator_list and len(st.body) == 1 and isinstance(st.body[0], ast.Return) and st.body[0].value is not None and not any(isinstance(x, (ast.Yield, ast.YieldFrom, ast.Await)) for x in ast.walk(st)):
                lam = ast.Lambda(args=st.args, body=st.body[0].value)
                seq[i] = ast.copy_location(ast.Assign(targets=[ast.Name(id=st.name, ctx=ast.Store())], value=lam), st)


_BOOL_METHODS = {'startswith', 'endswith', 'isdigit', 'isalpha', 'isalnum', 'isidentifier', 'isspace', 'islower', 'isupper', 'issubset', 'issuperset', 'isdisjoint', 'is_dir', 'is_file', 'exists', 'is_absolute', 'is_alive', 'is_set', 'fnmatch', 'fnmatchcase', 'is_zipfile'}


def _is_bool(t: ast.AST) -> bool:
    """Is the value of this expression certainly a ``bool``?"""
    if isinstance(t, ast.Compare):
        return all(isinstance(o, (ast.In, ast.NotIn, ast.Is, ast.IsNot)) for o in t.ops) or all(isinstance(x, ast.Constant) or (isinstance(x, ast.Call) and isinstance(x.func, ast.Name) and x.func.id == 'len') for x in [t.left] + t.comparators) or (len(t.ops) == 1 and isinstance(t.ops[0], (ast.Eq, ast.NotEq)) and _is_bool(t.left) and _is_bool(t.comparators[0]))
    if isinstance(t, ast.UnaryOp) and isinstance(t.op, ast.Not):
        return True
    if isinstance(t, ast.Call) and isinstance(t.func, ast.Name) and t.func.id in ('isinstance', 'issubclass', 'callable', 'hasattr', 'bool', 'all', 'any'):
        return True
    if isinstance(t, ast.Call) and isinstance(t.func, ast.Attribute) and t.func.attr in _BOOL_METHODS:
        return True  # names that mean a yes/no answer throughout the standard library (str, set, pathlib, threading, fnmatch)
    if isinstance(t, ast.BoolOp):
        return all(_is_bool(v) for v in t.values)
    if isinstance(t, ast.Constant) and isinstance(t.value, bool):
        return True
    if isinstance(t, ast.BinOp) and isinstance(t.op, ast.BitXor):
        return _is_bool(t.left) and _is_bool(t.right)
    return False


def canonical_callables(fn: ast.AST) -> None:
    """``operator.attrgetter('a')`` is ``lambda x: x.a`` and ``operator.itemgetter(k)`` is ``lambda x: x[k]`` (one plain
    argument; ``operator`` not re-bound locally)."""
    if any(isinstance(n, ast.Name) and n.id == 'operator' and isinstance(n.ctx, ast.Store) for n in ast.walk(fn)) or 'operator' in _params(fn):
        return

    class X(ast.NodeTransformer):
        def visit_Call(self, n):  # noqa: N802
            self.generic_visit(n)
            f = n.func
            if isinstance(f, ast.Attribute) and isinstance(f.value, ast.Name) and f.value.id == 'operator' and len(n.args) == 1 and not n.keywords and isinstance(n.args[0], ast.Constant):
                arg = n.args[0].value
                param = ast.arguments(posonlyargs=[], args=[ast.arg(arg='x__op')], kwonlyargs=[], kw_defaults=[], defaults=[])
                if f.attr == 'attrgetter' and isinstance(arg, str) and arg.isidentifier():
                    return ast.copy_location(ast.Lambda(args=param, body=ast.Attribute(value=ast.Name(id='x__op', ctx=ast.Load()), attr=arg, ctx=ast.Load())), n)
                if f.attr == 'itemgetter':
                    return ast.copy_location(ast.Lambda(args=param, body=ast.Subscript(value=ast.Name(id='x__op', ctx=ast.Load()), slice=n.args[0], ctx=ast.Load())), n)
            return n

    X().visit(fn)
    ast.fix_missing_locations(fn)


def boolean_algebra(fn: ast.AST) -> None:
    """``a ^ b`` on booleans is ``a != b``; in ``a == b`` / ``a != b`` on booleans a negated operand flips the operator."""
    class X(ast.NodeTransformer):
        def visit_BinOp(self, n):  # noqa: N802
            self.generic_visit(n)
            if isinstance(n.op, ast.BitXor) and _is_bool(n.left) and _is_bool(n.right):
                return self.visit_Compare(ast.copy_location(ast.Compare(left=n.left, ops=[ast.NotEq()], comparators=[n.right]), n))
            return n

        def visit_Compare(self, n):  # noqa: N802
            self.generic_visit(n)
            if len(n.ops) == 1 and isinstance(n.ops[0], (ast.Eq, ast.NotEq)) and _is_bool(n.left) and _is_bool(n.comparators[0]):
                flips = 0
                sides = []
                for side in (n.left, n.comparators[0]):
                    pos = nnf(side)
                    if isinstance(pos, ast.UnaryOp) and isinstance(pos.op, ast.Not):
                        pos, flips = pos.operand, flips + 1
                    elif isinstance(pos, ast.Compare) and len(pos.ops) == 1 and type(pos.ops[0]) in _POS:
                        pos, flips = nnf(pos, False), flips + 1
                    sides.append(pos)
                op = type(n.ops[0])
                if flips % 2:
                    op = ast.NotEq if op is ast.Eq else ast.Eq
                return ast.copy_location(ast.Compare(left=sides[0], ops=[op()], comparators=[sides[1]]), n)
            return n

    X().visit(fn)


def drop_sticky_flag_tests(fn: ast.AST) -> None:
    """``if flag and cond: flag = False``  ->  ``if cond: flag = False`` for a local flag that only ever holds True/False
    and a condition made of names, constants and ==/!=/is comparisons of them (clearing a flag that is already False changes
    nothing; the condition has no effect, so evaluating it once more is not observable)."""
    args = fn.args  # type: ignore[attr-defined]
    params = {a.arg for a in args.posonlyargs + args.args + args.kwonlyargs} | ({args.vararg.arg} if args.vararg else set()) | ({args.kwarg.arg} if args.kwarg else set())
    stores: dict = {}
    bad: set = set(params)
    for n in ast.walk(fn):
        if isinstance(n, (ast.Global, ast.Nonlocal)):
            bad.update(n.names)
        elif isinstance(n, ast.Name) and isinstance(n.ctx, (ast.Store, ast.Del)):
            stores.setdefault(n.id, 0)
            stores[n.id] += 1
    simple = (ast.Name, ast.Constant, ast.Compare, ast.BoolOp, ast.UnaryOp, ast.Not, ast.And, ast.Or, ast.Load, ast.cmpop)
    plain: dict = {}
    for n in ast.walk(fn):
        if isinstance(n, ast.Assign) and len(n.targets) == 1 and isinstance(n.targets[0], ast.Name) and isinstance(n.value, ast.Constant) and n.value.value in (True, False) and isinstance(n.value.value, bool):
            plain[n.targets[0].id] = plain.get(n.targets[0].id, 0) + 1
    # ``flag = flag and cond`` - only the truth value of the flag is ever used - is ``if not cond: flag = False``
    def conj(n: ast.AST) -> bool:
        return isinstance(n, ast.Assign) and len(n.targets) == 1 and isinstance(n.targets[0], ast.Name) and isinstance(n.value, ast.BoolOp) and isinstance(n.value.op, ast.And) and isinstance(n.value.values[0], ast.Name) and n.value.values[0].id == n.targets[0].id and not any(isinstance(y, ast.Name) and y.id == n.targets[0].id for v in n.value.values[1:] for y in ast.walk(v))

    conjs = [n for n in ast.walk(fn) if conj(n)]
    if conjs:
        tests: set = set()

        def mark(t: ast.AST) -> None:
            if isinstance(t, ast.Name):
                tests.add(id(t))
            elif isinstance(t, ast.BoolOp):
                for v in t.values:
                    mark(v)
            elif isinstance(t, ast.UnaryOp) and isinstance(t.op, ast.Not):
                mark(t.operand)

        for n in ast.walk(fn):
            if isinstance(n, (ast.If, ast.While, ast.IfExp)):
                mark(n.test)
        for n in conjs:
            tests.add(id(n.value.values[0]))
        for n in conjs:
            x = n.targets[0].id
            k = sum(1 for c in conjs if c.targets[0].id == x)
            if x in bad or stores.get(x) != plain.get(x, 0) + k:
                continue
            if any(isinstance(y, ast.Name) and y.id == x and isinstance(y.ctx, ast.Load) and id(y) not in tests for y in ast.walk(fn)):
                continue
            rest = n.value.values[1:]
            if not all(isinstance(y, simple) and not (isinstance(y, ast.UnaryOp) and not isinstance(y.op, ast.Not)) and not (isinstance(y, ast.cmpop) and not isinstance(y, (ast.Eq, ast.NotEq, ast.Is, ast.IsNot))) for v in rest for y in ast.walk(v)):
                continue
            cond = rest[0] if len(rest) == 1 else ast.BoolOp(op=ast.And(), values=rest)
            new_if = ast.copy_location(ast.If(test=nnf(cond, False), body=[ast.copy_location(ast.Assign(targets=[n.targets[0]], value=ast.Constant(value=False)), n)], orelse=[]), n)
            for blk in ast.walk(fn):
                for f in _BLOCKS:
                    seq = getattr(blk, f, None)
                    if isinstance(seq, list):
                        for j, y in enumerate(seq):
                            if y is n:
                                seq[j] = new_if
            plain[x] = plain.get(x, 0) + 1
    flags = {x for x, k in plain.items() if stores.get(x) == k and x not in bad}
    if not flags:
        return
    for n in ast.walk(fn):
        if not (isinstance(n, ast.If) and not n.orelse and len(n.body) == 1 and isinstance(n.test, ast.BoolOp) and isinstance(n.test.op, ast.And)):
            continue
        st = n.body[0]
        if not (isinstance(st, ast.Assign) and len(st.targets) == 1 and isinstance(st.targets[0], ast.Name) and st.targets[0].id in flags and isinstance(st.value, ast.Constant) and st.value.value is False):
            continue
        flag = st.targets[0].id
        rest = [v for v in n.test.values if not (isinstance(v, ast.Name) and v.id == flag)]
        if len(rest) == len(n.test.values) or not rest:
            continue
        if not all(isinstance(x, simple) and not (isinstance(x, ast.UnaryOp) and not isinstance(x.op, ast.Not)) and not (isinstance(x, ast.cmpop) and not isinstance(x, (ast.Eq, ast.NotEq, ast.Is, ast.IsNot))) for v in rest for x in ast.walk(v)):
            continue
        n.test = rest[0] if len(rest) == 1 else ast.BoolOp(op=ast.And(), values=rest)


def _negate(e: ast.AST) -> ast.AST:
    return ast.UnaryOp(op=ast.Not(), operand=e)


_POS = {ast.NotIn: ast.In, ast.IsNot: ast.Is, ast.NotEq: ast.Eq}


def nnf(test: ast.AST, pol: bool = True) -> ast.AST:
    """Negation normal form (De Morgan; ``not`` folded into in/is/==; double negation dropped).  Only for expressions
    in a boolean *test* position (their truth value is all that is used)."""
    if isinstance(test, ast.UnaryOp) and isinstance(test.op, ast.Not):
        return nnf(test.operand, not pol)
    if isinstance(test, ast.Call) and isinstance(test.func, ast.Name) and test.func.id == 'bool' and len(test.args) == 1 and not test.keywords and not isinstance(test.args[0], ast.Starred):
        return nnf(test.args[0], pol)  # truth value of bool(x) is the truth value of x
    if not pol and isinstance(test, ast.Call) and isinstance(test.func, ast.Name) and test.func.id in ('all', 'any') and len(test.args) == 1 and not test.keywords and isinstance(test.args[0], (ast.GeneratorExp, ast.ListComp)):
        # not all(p(x) ..) is any(not p(x) ..) and vice versa (same elements inspected, same stop)
        gen = test.args[0]
        dual = 'any' if test.func.id == 'all' else 'all'
        return ast.Call(func=ast.Name(id=dual, ctx=ast.Load()), args=[ast.GeneratorExp(elt=nnf(gen.elt, False), generators=gen.generators)], keywords=[])
    if isinstance(test, ast.BoolOp):
        op = type(test.op)() if pol else (ast.Or() if isinstance(test.op, ast.And) else ast.And())
        values = []
        for v in test.values:
            w = nnf(v, pol)
            if isinstance(w, ast.BoolOp) and type(w.op) is type(op):
                values.extend(w.values)
            else:
                values.append(w)
        return ast.BoolOp(op=op, values=values)
    if isinstance(test, ast.Compare) and len(test.ops) == 1:
        op = type(test.ops[0])
        if op in _POS and not pol:
            return ast.Compare(left=test.left, ops=[_POS[op]()], comparators=test.comparators)
        if op in _POS and pol:
            return test
        inv = {v: k for k, v in _POS.items()}
        if op in inv and not pol:
            return ast.Compare(left=test.left, ops=[inv[op]()], comparators=test.comparators)
        return test if pol else _negate(test)
    return test if pol else _negate(test)


def canonical_tests(fn: ast.AST) -> None:
    """Tests of if/while/assert/conditional expressions/comprehension filters in negation normal form; a conditional whose
    test is a negation swaps its arms instead."""
    for n in ast.walk(fn):
        if isinstance(n, ast.IfExp):
            t = n.test
            if isinstance(t, ast.UnaryOp) and isinstance(t.op, ast.Not):
                n.test, n.body, n.orelse = t.operand, n.orelse, n.body
            n.test = nnf(n.test)
            if isinstance(n.test, ast.UnaryOp) and isinstance(n.test.op, ast.Not):
                n.test, n.body, n.orelse = n.test.operand, n.orelse, n.body
            if isinstance(n.test, ast.Compare) and len(n.test.ops) == 1 and type(n.test.ops[0]) in _POS:
                n.test, n.body, n.orelse = nnf(n.test, False), n.orelse, n.body
            if isinstance(n.test, ast.BoolOp) and isinstance(n.test.op, ast.Or):
                n.test, n.body, n.orelse = nnf(n.test, False), n.orelse, n.body  # one spelling of a test and its negation: the conjunction
        elif isinstance(n, ast.If):
            n.test = nnf(n.test)
            if n.orelse and isinstance(n.test, ast.UnaryOp) and isinstance(n.test.op, ast.Not):
                n.test, n.body, n.orelse = n.test.operand, n.orelse, n.body
            if n.orelse and isinstance(n.test, ast.Compare) and len(n.test.ops) == 1 and type(n.test.ops[0]) in _POS:
                n.test, n.body, n.orelse = nnf(n.test, False), n.orelse, n.body
            if n.orelse and isinstance(n.test, ast.BoolOp) and isinstance(n.test.op, ast.Or):
                n.test, n.body, n.orelse = nnf(n.test, False), n.orelse, n.body
        elif isinstance(n, (ast.While, ast.Assert)):
            n.test = nnf(n.test)
        elif isinstance(n, ast.comprehension):
            n.ifs = [nnf(c) for c in n.ifs]
    # ``a if a else b`` is ``a or b`` for a call-free a
    class T(ast.NodeTransformer):
        def visit_IfExp(self, n):  # noqa: N802
            self.generic_visit(n)
            if not _has_call(n.test) and ast.dump(n.test) == ast.dump(n.body):
                return ast.copy_location(ast.BoolOp(op=ast.Or(), values=[n.body, n.orelse]), n)
            return n

        def visit_BoolOp(self, n):  # noqa: N802
            self.generic_visit(n)
            values = []
            for v in n.values:
                if isinstance(v, ast.BoolOp) and type(v.op) is type(n.op):
                    values.extend(v.values)
                else:
                    values.append(v)
            n.values = values
            return n

    T().visit(fn)

    is_bool = _is_bool

    def _unused(t: ast.AST) -> bool:
        if isinstance(t, ast.Compare):
            return all(isinstance(o, (ast.In, ast.NotIn, ast.Is, ast.IsNot)) for o in t.ops) or all(isinstance(x, ast.Constant) or (isinstance(x, ast.Call) and isinstance(x.func, ast.Name) and x.func.id == 'len') for x in [t.left] + t.comparators)
        if isinstance(t, ast.UnaryOp) and isinstance(t.op, ast.Not):
            return True
        if isinstance(t, ast.Call) and isinstance(t.func, ast.Name) and t.func.id in ('isinstance', 'issubclass', 'callable', 'hasattr', 'bool', 'all', 'any'):
            return True
        if isinstance(t, ast.BoolOp):
            return all(is_bool(v) for v in t.values)
        if isinstance(t, ast.Constant) and isinstance(t.value, bool):
            return True
        return False

    class B(ast.NodeTransformer):
        def visit_IfExp(self, n):  # noqa: N802
            self.generic_visit(n)
            t = n.test
            # ``None if x is None else E`` for ``x if x is None else E``
            if isinstance(t, ast.Compare) and len(t.ops) == 1 and isinstance(t.ops[0], ast.Is) and isinstance(t.comparators[0], ast.Constant) and t.comparators[0].value is None and isinstance(t.left, ast.Name) and isinstance(n.body, ast.Name) and n.body.id == t.left.id:
                n.body = ast.copy_location(ast.Constant(value=None), n.body)
            if is_bool(t):
                true = isinstance(n.body, ast.Constant) and n.body.value is True
                false = isinstance(n.body, ast.Constant) and n.body.value is False
                otrue = isinstance(n.orelse, ast.Constant) and n.orelse.value is True
                ofalse = isinstance(n.orelse, ast.Constant) and n.orelse.value is False
                if true:
                    return ast.copy_location(ast.BoolOp(op=ast.Or(), values=[t, n.orelse]), n)
                if ofalse:
                    return ast.copy_location(ast.BoolOp(op=ast.And(), values=[t, n.body]), n)
                if false:
                    return ast.copy_location(ast.BoolOp(op=ast.And(), values=[nnf(t, False), n.orelse]), n)
                if otrue:
                    return ast.copy_location(ast.BoolOp(op=ast.Or(), values=[nnf(t, False), n.body]), n)
            return n

        def visit_Call(self, n):  # noqa: N802
            self.generic_visit(n)
            # beta reduction: (lambda p, q: E)(a, b) with effect-free arguments
            f = n.func
            if isinstance(f, ast.Lambda) and not n.keywords and not f.args.vararg and not f.args.kwarg and not f.args.kwonlyargs and not f.args.defaults and len(f.args.args) == len(n.args) and all(_is_chain(a) and not _computing_chain(a) for a in n.args):
                ps = [a.arg for a in f.args.args]
                inner_bound = _inner_bound(f.body)
                arg_names = {x for a in n.args for x in _names(a)}
                if not (set(ps) & inner_bound) and not (arg_names & inner_bound):
                    m = dict(zip(ps, n.args))

                    class S(ast.NodeTransformer):
                        def visit_Name(self, x):  # noqa: N802
                            if isinstance(x.ctx, ast.Load) and x.id in m:
                                return _clone(m[x.id])
                            return x

                    return S().visit(f.body)
            return n

    B().visit(fn)
    T().visit(fn)


def _skips_round(st: ast.If, depth: int = 0) -> bool:
    """An if statement one of whose (nested, tail) arms is a lone ``continue`` while another arm falls through; at most
    three arms fall through."""
    leaves = []

    def walk(node: ast.If, d: int) -> bool:
        for arm in (node.body, node.orelse):
            if arm and isinstance(arm[-1], ast.If) and d < 2 and not _terminates(arm):
                if not walk(arm[-1], d + 1):
                    return False
            elif len(arm) == 1 and isinstance(arm[0], ast.Continue):
                leaves.append('continue')
            elif _terminates(arm):
                leaves.append('exit')
            else:
                leaves.append('fall')
        return True

    if not walk(st, 0):
        return False
    nested = any(isinstance(arm[-1], ast.If) for arm in (st.body, st.orelse) if arm)
    return nested and 'continue' in leaves and 1 <= leaves.count('fall') <= 3


def _push_tail(st: ast.If, rest: list) -> None:
    for attr in ('body', 'orelse'):
        arm = getattr(st, attr)
        if arm and _terminates(arm):
            continue
        if arm and isinstance(arm[-1], ast.If) and any(_terminates(a) or (a and isinstance(a[-1], ast.If)) for a in (arm[-1].body, arm[-1].orelse)):
            _push_tail(arm[-1], rest)
        else:
            setattr(st, attr, arm + [_clone(r) for r in rest])


def flatten_conditionals(fn: ast.AST) -> None:
    """Statement-level conditionals in one spelling:
    * ``if c: <exits>`` followed by R      ->  ``if c: <exits> else: R``        (guard clause == else arm)
    * ``if a: (if b: X)``                  ->  ``if a and b: X``                 (no else arms)
    * ``if c: return A else: return B``    ->  ``return A if c else B``          (same for ``t = A`` / ``t = B``)
    * ``t = B`` ; ``if c: t = A``          ->  ``t = A if c else B``             (B name-pure, t not read by c or A)
    innermost first."""
    changed = True
    rounds = 0
    while changed and rounds < 8:
        changed = False
        rounds += 1
        for seq in reversed(list(_blocks(fn))):
            i = 0
            while i < len(seq):
                st = seq[i]
                if isinstance(st, ast.If):
                    # guard clause -> else arm
                    if not st.orelse and _terminates(st.body) and i + 1 < len(seq):
                        st.orelse = seq[i + 1:]
                        del seq[i + 1:]
                        changed = True
                    # one arm leaves, the other falls through to the rest of the block: the rest belongs to that arm
                    if st.orelse and i + 1 < len(seq) and _terminates(st.body) and not _terminates(st.orelse):
                        st.orelse = st.orelse + seq[i + 1:]
                        del seq[i + 1:]
                        changed = True
                    elif st.orelse and i + 1 < len(seq) and _terminates(st.orelse) and not _terminates(st.body):
                        st.body = st.body + seq[i + 1:]
                        del seq[i + 1:]
                        changed = True
                    # ``if a: (if b: S else: continue)`` ; R  (in a loop)  ->  the rest R belongs to every arm that falls through
                    if i + 1 < len(seq) and _skips_round(st) and len(seq) - i - 1 <= 4 and not any(isinstance(x, (ast.For, ast.AsyncFor, ast.While, ast.With, ast.AsyncWith, ast.Try, ast.ClassDef) + FUNC) for r in seq[i + 1:] for x in ast.walk(r)):
                        rest = seq[i + 1:]
                        del seq[i + 1:]
                        _push_tail(st, rest)
                        changed = True
                    # nested ifs without else -> conjunction
                    if not st.orelse and len(st.body) == 1 and isinstance(st.body[0], ast.If) and not st.body[0].orelse:
                        inner = st.body[0]
                        st.test = ast.BoolOp(op=ast.And(), values=[st.test, inner.test])
                        st.body = inner.body
                        changed = True
                        continue
                    # default then conditional overwrite -> conditional expression
                    if not st.orelse and len(st.body) == 1 and i > 0:
                        a, prev = st.body[0], seq[i - 1]
                        if isinstance(a, ast.Assign) and isinstance(prev, ast.Assign) and len(a.targets) == 1 and len(prev.targets) == 1 and isinstance(a.targets[0], ast.Name) and ast.dump(a.targets[0]) == ast.dump(prev.targets[0]) and _is_name_pure(prev.value):
                            t = a.targets[0].id
                            if t not in _names(st.test) and t not in _names(a.value) and t not in _names(prev.value):
                                seq[i - 1:i + 1] = [ast.copy_location(ast.Assign(targets=[a.targets[0]], value=ast.IfExp(test=st.test, body=a.value, orelse=prev.value)), prev)]
                                changed = True
                                i -= 1
                                continue
                    # conditional re-binding of a variable that certainly has a value -> conditional expression
                    if not st.orelse and len(st.body) == 1 and isinstance(st.body[0], ast.Assign) and len(st.body[0].targets) == 1 and isinstance(st.body[0].targets[0], ast.Name):
                        t = st.body[0].targets[0].id
                        loop_owner = next((n for n in ast.walk(fn) if isinstance(n, (ast.For, ast.AsyncFor)) and n.body is seq), None)
                        definite = t in _params(fn) or any(isinstance(p, ast.Assign) and any(isinstance(x, ast.Name) and x.id == t for x in p.targets) for p in seq[:i]) or (loop_owner is not None and any(isinstance(x, ast.Name) and x.id == t for x in ast.walk(loop_owner.target)))
                        if definite and not any(isinstance(x, FUNC + (ast.Lambda,)) for x in ast.walk(st)):
                            seq[i] = ast.copy_location(ast.Assign(targets=[st.body[0].targets[0]], value=ast.IfExp(test=st.test, body=st.body[0].value, orelse=ast.Name(id=t, ctx=ast.Load()))), st)
                            changed = True
                            continue
                    # two single-statement arms of the same kind -> conditional expression
                    if len(st.body) == 1 and len(st.orelse) == 1:
                        a, b = st.body[0], st.orelse[0]
                        if isinstance(a, ast.Return) and isinstance(b, ast.Return):
                            av = a.value or ast.Constant(value=None)
                            bv = b.value or ast.Constant(value=None)
                            seq[i] = ast.copy_location(ast.Return(value=ast.IfExp(test=st.test, body=av, orelse=bv)), st)
                            changed = True
                            continue
                        if isinstance(a, ast.Assign) and isinstance(b, ast.Assign) and len(a.targets) == 1 and len(b.targets) == 1 and isinstance(a.targets[0], (ast.Name, ast.Attribute)) and not _has_call(a.targets[0]) and ast.dump(a.targets[0]) == ast.dump(b.targets[0]):
                            seq[i] = ast.copy_location(ast.Assign(targets=[a.targets[0]], value=ast.IfExp(test=st.test, body=a.value, orelse=b.value)), st)
                            changed = True
                            continue
                        if isinstance(a, ast.Expr) and isinstance(b, ast.Expr) and isinstance(a.value, ast.Call) and isinstance(b.value, ast.Call) and ast.dump(a.value.func) == ast.dump(b.value.func) and len(a.value.args) == len(b.value.args) == 1 and not a.value.keywords and not b.value.keywords and not _has_call(a.value.func):
                            # f(A) / f(B) under a condition -> f(A if c else B) (the callee expression is call free)
                            call = ast.Call(func=a.value.func, args=[ast.IfExp(test=st.test, body=a.value.args[0], orelse=b.value.args[0])], keywords=[])
                            if not _names(st.test) & set() and not _has_call(st.test):
                                seq[i] = ast.copy_location(ast.Expr(value=call), st)
                                changed = True
                                continue
                    # ``if c: A`` ; ``return R`` (end of block)  ->  ``if c: A; return R else: return R``
                    if st.orelse and not _terminates(st.body) and not _terminates(st.orelse) and i + 2 == len(seq) and isinstance(seq[i + 1], (ast.Return, ast.Raise)) and not any(isinstance(x, (ast.For, ast.While, ast.With)) for b in st.body + st.orelse for x in ast.walk(b)) and len(st.body) <= 6 and len(st.orelse) <= 6 and not (len(st.body) == 1 and len(st.orelse) == 1 and isinstance(st.body[0], ast.Assign) and isinstance(st.orelse[0], ast.Assign)):
                        tail = seq[i + 1]
                        st.body = st.body + [_clone(tail)]
                        st.orelse = st.orelse + [tail]
                        del seq[i + 1]
                        changed = True
                        continue
                    if not st.orelse and not _terminates(st.body) and i + 2 == len(seq) and isinstance(seq[i + 1], (ast.Return, ast.Raise)) and len(st.body) <= 4:
                        tail = seq[i + 1]
                        st.body = st.body + [_clone(tail)]
                        st.orelse = [tail]
                        del seq[i + 1]
                        changed = True
                        continue
                i += 1
        # a function that ends in ``if c: return A`` falls off the end otherwise: explicit else None is NOT added (kept as is)
        if changed:
            canonical_tests(fn)


_FOLD_OPS = {ast.Add: 'add', ast.BitXor: 'xor', ast.BitOr: 'or_', ast.BitAnd: 'and_', ast.Mult: 'mul'}


def loops_to_comprehensions(fn: ast.AST) -> None:
    """``acc = []`` ; ``for T in IT: [if C:] acc.append(E)``  ->  ``acc = [E for T in IT if C]`` (likewise set()/add and
    {} / acc[K] = V), provided the loop variables are not used afterwards, the loop has no else arm, and E/C do not read acc."""
    for owner in [n for n in ast.walk(fn)]:
        for f in _BLOCKS:
            seq = getattr(owner, f, None)
            if not (isinstance(seq, list) and seq and isinstance(seq[0], ast.stmt)):
                continue
            i = 0
            while i + 1 < len(seq):
                init, loop = seq[i], seq[i + 1]
                i += 1
                if not (isinstance(init, ast.Assign) and len(init.targets) == 1 and isinstance(init.targets[0], ast.Name) and isinstance(loop, ast.For) and not loop.orelse):
                    continue
                acc = init.targets[0].id
                v = init.value
                kind = None
                if (isinstance(v, ast.List) and not v.elts) or (isinstance(v, ast.Call) and isinstance(v.func, ast.Name) and v.func.id == 'list' and not v.args and not v.keywords):
                    kind = 'list'
                elif isinstance(v, ast.Call) and isinstance(v.func, ast.Name) and v.func.id == 'set' and not v.args and not v.keywords:
                    kind = 'set'
                elif (isinstance(v, ast.Dict) and not v.keys) or (isinstance(v, ast.Call) and isinstance(v.func, ast.Name) and v.func.id == 'dict' and not v.args and not v.keywords):
                    kind = 'dict'
                elif isinstance(v, ast.Constant) and type(v.value) is int:
                    kind = 'fold'  # acc = 0 ; for ..: acc += E   (an int start value: the in-place operator is the plain one)
                if kind is None:
                    continue
                gens = []
                cur: ast.stmt = loop
                ok = True
                while True:
                    if isinstance(cur, ast.For) and not cur.orelse and len(cur.body) == 1:
                        gens.append(ast.comprehension(target=cur.target, iter=cur.iter, ifs=[], is_async=0))
                        cur = cur.body[0]
                    elif isinstance(cur, ast.If) and not cur.orelse and len(cur.body) == 1 and gens:
                        gens[-1].ifs.append(cur.test)
                        cur = cur.body[0]
                    else:
                        break
                comp = None
                if kind in ('list', 'set') and isinstance(cur, ast.Expr) and isinstance(cur.value, ast.Call) and isinstance(cur.value.func, ast.Attribute) and isinstance(cur.value.func.value, ast.Name) and cur.value.func.value.id == acc and cur.value.func.attr == ('append' if kind == 'list' else 'add') and len(cur.value.args) == 1 and not cur.value.keywords:
                    elt = cur.value.args[0]
                    comp = (ast.ListComp if kind == 'list' else ast.SetComp)(elt=elt, generators=gens)
                elif kind == 'dict' and isinstance(cur, ast.Assign) and len(cur.targets) == 1 and isinstance(cur.targets[0], ast.Subscript) and isinstance(cur.targets[0].value, ast.Name) and cur.targets[0].value.id == acc:
                    comp = ast.DictComp(key=cur.targets[0].slice, value=cur.value, generators=gens)
                elif kind == 'fold' and isinstance(cur, ast.AugAssign) and isinstance(cur.target, ast.Name) and cur.target.id == acc and type(cur.op) in _FOLD_OPS:
                    gen = ast.GeneratorExp(elt=cur.value, generators=gens)
                    if isinstance(cur.op, ast.Add):
                        # sum() adds from the left starting at its start value, like the loop does
                        comp = ast.Call(func=ast.Name(id='sum', ctx=ast.Load()), args=[gen] + ([] if v.value == 0 else [v]), keywords=[])
                    else:
                        comp = ast.Call(func=ast.Attribute(value=ast.Name(id='functools', ctx=ast.Load()), attr='reduce', ctx=ast.Load()), args=[ast.Attribute(value=ast.Name(id='operator', ctx=ast.Load()), attr=_FOLD_OPS[type(cur.op)], ctx=ast.Load()), gen, v], keywords=[])
                if comp is None or not gens:
                    continue
                inner_names = set()
                for g in gens:
                    inner_names |= _names(g.iter) | {x for c in g.ifs for x in _names(c)}
                body_names = _names(comp) - {acc} if False else _names(comp)
                if acc in body_names:
                    continue  # the accumulator is read while it is built
                loop_vars = {x.id for g in gens for x in ast.walk(g.target) if isinstance(x, ast.Name)}
                # loop variables must be dead after the loop (a comprehension does not leak them) and not bound before
                rest_names = set()
                for later in _stmts_after(fn, loop):
                    rest_names |= _names(later)
                bound_elsewhere = {x.id for x in ast.walk(fn) if isinstance(x, ast.Name) and isinstance(x.ctx, ast.Store) and not any(x is y for y in ast.walk(loop))}
                if loop_vars & rest_names or loop_vars & bound_elsewhere or loop_vars & _params(fn):
                    continue
                seq[i - 1:i + 1] = [ast.copy_location(ast.Assign(targets=[init.targets[0]], value=comp), init)]
                i -= 1
    # ``for T in IT: if C: return True`` ; ``return False``  ->  ``return any(C for T in IT)``  (and the all() dual)
    for seq in list(_blocks(fn)):
        for i in range(len(seq) - 1):
            loop, ret = seq[i], seq[i + 1]
            if not (isinstance(loop, ast.For) and not loop.orelse and len(loop.body) == 1 and isinstance(loop.body[0], ast.If) and not loop.body[0].orelse and len(loop.body[0].body) == 1 and i + 2 == len(seq)):
                continue
            inner = loop.body[0].body[0]
            if not (isinstance(inner, ast.Return) and isinstance(inner.value, ast.Constant) and isinstance(inner.value.value, bool) and isinstance(ret, ast.Return) and isinstance(ret.value, ast.Constant) and isinstance(ret.value.value, bool) and inner.value.value != ret.value.value):
                continue
            loop_vars = {x.id for x in ast.walk(loop.target) if isinstance(x, ast.Name)}
            bound_elsewhere = {x.id for x in ast.walk(fn) if isinstance(x, ast.Name) and isinstance(x.ctx, ast.Store) and not any(x is y for y in ast.walk(loop))}
            if loop_vars & bound_elsewhere or loop_vars & _params(fn):
                continue
            test = loop.body[0].test
            if inner.value.value is True:
                call = ast.Call(func=ast.Name(id='any', ctx=ast.Load()), args=[ast.GeneratorExp(elt=test, generators=[ast.comprehension(target=loop.target, iter=loop.iter, ifs=[], is_async=0)])], keywords=[])
            else:
                call = ast.Call(func=ast.Name(id='all', ctx=ast.Load()), args=[ast.GeneratorExp(elt=nnf(test, False), generators=[ast.comprehension(target=loop.target, iter=loop.iter, ifs=[], is_async=0)])], keywords=[])
            seq[i:i + 2] = [ast.copy_location(ast.Return(value=call), loop)]
            break
    # ``for T in IT: if C: raise E`` (E independent of T)  ->  ``if any(C for T in IT): raise E``
    for seq in list(_blocks(fn)):
        for i, loop in enumerate(seq):
            if not (isinstance(loop, ast.For) and not loop.orelse and len(loop.body) == 1 and isinstance(loop.body[0], ast.If) and not loop.body[0].orelse and len(loop.body[0].body) == 1 and isinstance(loop.body[0].body[0], ast.Raise)):
                continue
            loop_vars = {x.id for x in ast.walk(loop.target) if isinstance(x, ast.Name)}
            if loop_vars & _names(loop.body[0].body[0]):
                continue
            bound_elsewhere = {x.id for x in ast.walk(fn) if isinstance(x, ast.Name) and not any(x is y for y in ast.walk(loop))}
            if loop_vars & bound_elsewhere or loop_vars & _params(fn):
                continue
            call = ast.Call(func=ast.Name(id='any', ctx=ast.Load()), args=[ast.GeneratorExp(elt=loop.body[0].test, generators=[ast.comprehension(target=loop.target, iter=loop.iter, ifs=[], is_async=0)])], keywords=[])
            seq[i] = ast.copy_location(ast.If(test=call, body=loop.body[0].body, orelse=[]), loop)
    # ``for x in (y for y in IT if C)``  ->  ``for x in IT if C[x/y]`` (the inner generator hands its variable through)
    for comp in [n for n in ast.walk(fn) if isinstance(n, (ast.ListComp, ast.SetComp, ast.GeneratorExp, ast.DictComp))]:
        g = comp.generators[0]
        it = g.iter
        if isinstance(it, (ast.GeneratorExp, ast.ListComp)) and len(it.generators) == 1 and isinstance(it.elt, ast.Name) and isinstance(it.generators[0].target, ast.Name) and it.elt.id == it.generators[0].target.id and isinstance(g.target, ast.Name) and not it.generators[0].is_async:
            inner_var, outer_var = it.elt.id, g.target.id
            if outer_var in _names(it.generators[0].iter) or any(outer_var in _names(c) for c in it.generators[0].ifs):
                continue
            ifs = []
            for c in it.generators[0].ifs:
                for x in ast.walk(c):
                    if isinstance(x, ast.Name) and x.id == inner_var:
                        x.id = outer_var
                ifs.append(c)
            g.iter = it.generators[0].iter
            g.ifs = ifs + g.ifs
    # tuple([...]) / set([...]) / any([...]) ... consume an iterable: a list display and a generator are the same there
    consumers = {'tuple', 'set', 'frozenset', 'list', 'sorted', 'any', 'all', 'sum', 'min', 'max', 'dict'}

    class T(ast.NodeTransformer):
        def visit_Call(self, n):  # noqa: N802
            self.generic_visit(n)
            if isinstance(n.func, ast.Name) and n.func.id in consumers and len(n.args) == 1 and isinstance(n.args[0], ast.ListComp) and not _has_call_in_comp(n.args[0]):
                n.args[0] = ast.copy_location(ast.GeneratorExp(elt=n.args[0].elt, generators=n.args[0].generators), n.args[0])
            spliced = []
            for a in n.args:
                if isinstance(a, ast.Starred) and isinstance(a.value, (ast.List, ast.Tuple)) and not any(isinstance(e, ast.Starred) for e in a.value.elts):
                    spliced.extend(a.value.elts)
                else:
                    spliced.append(a)
            n.args = spliced
            for k, a in enumerate(n.args):
                if isinstance(a, ast.Starred) and isinstance(a.value, ast.ListComp):
                    a.value = ast.copy_location(ast.GeneratorExp(elt=a.value.elt, generators=a.value.generators), a.value)
            if isinstance(n.func, ast.Name) and n.func.id in ('tuple', 'list', 'set') and len(n.args) == 1 and not n.keywords and isinstance(n.args[0], (ast.List, ast.Tuple)) and (n.func.id != 'set' or n.args[0].elts):
                display = {'tuple': ast.Tuple, 'list': ast.List, 'set': ast.Set}[n.func.id]
                kw = {} if display is ast.Set else {'ctx': ast.Load()}
                return ast.copy_location(display(elts=n.args[0].elts, **kw), n)
            if isinstance(n.func, ast.Name) and n.func.id == 'list' and len(n.args) == 1 and not n.keywords and isinstance(n.args[0], ast.GeneratorExp):
                return ast.copy_location(ast.ListComp(elt=n.args[0].elt, generators=n.args[0].generators), n)
            if isinstance(n.func, ast.Name) and n.func.id == 'set' and len(n.args) == 1 and not n.keywords and isinstance(n.args[0], ast.GeneratorExp):
                return ast.copy_location(ast.SetComp(elt=n.args[0].elt, generators=n.args[0].generators), n)
            return n

    T().visit(fn)
    # ``(*a, *[x])`` is ``(*a, x)``
    for n in ast.walk(fn):
        if isinstance(n, (ast.Tuple, ast.List, ast.Set)) and isinstance(getattr(n, 'ctx', ast.Load()), ast.Load):
            spliced = []
            for e in n.elts:
                if isinstance(e, ast.Starred) and isinstance(e.value, (ast.List, ast.Tuple)) and not any(isinstance(x, ast.Starred) for x in e.value.elts):
                    spliced.extend(e.value.elts)
                else:
                    spliced.append(e)
            n.elts = spliced


def _has_call_in_comp(c: ast.AST) -> bool:
    return False  # list display vs generator inside an eager consumer: same calls in the same order either way


def _stmts_after(fn: ast.AST, st: ast.stmt) -> list:
    """Statements that may run after ``st`` within ``fn`` (later siblings on every enclosing level; for an enclosing loop
    the whole loop, since the next iteration comes after)."""
    parents = {}
    for n in ast.walk(fn):
        for c in ast.iter_child_nodes(n):
            parents[id(c)] = n
    out = []
    cur: ast.AST = st
    while cur is not fn and id(cur) in parents:
        par = parents[id(cur)]
        for f in _BLOCKS:
            seq = getattr(par, f, None)
            if isinstance(seq, list) and any(x is cur for x in seq):
                k = next(i for i, x in enumerate(seq) if x is cur)
                out.extend(seq[k + 1:])
        if isinstance(par, (ast.For, ast.AsyncFor, ast.While)):
            out.append(par)
        cur = par
    return out


def _inner_bound(e: ast.AST) -> set:
    """Names bound inside an expression's own scopes (lambda parameters, comprehension variables)."""
    out = set()
    for n in ast.walk(e):
        if isinstance(n, ast.Lambda):
            out |= {a.arg for a in ast.walk(n.args) if isinstance(a, ast.arg)}
        elif isinstance(n, ast.comprehension):
            out |= {x.id for x in ast.walk(n.target) if isinstance(x, ast.Name)}
    return out


def inline_temporaries(fn: ast.AST, only: typing.Optional[set] = None, sigs: typing.Optional['SignatureIndex'] = None) -> bool:
    """One round: a local bound exactly once by ``x = V`` is substituted into its uses and the assignment dropped when
    evaluation is provably the same:
    * V name-pure (names bound at most once / parameters never re-bound, constants): anywhere;
    * V a read-only attribute chain: any number of uses, as long as nothing between the assignment and the last use stores
      to or calls through/with the chain's base name;
    * otherwise (V contains calls): exactly one use, in the header of the *next* statement of the same block, at a position
      that is evaluated unconditionally and before every other call of that header.
    Returns whether something was inlined."""
    params = _params(fn)
    bound: dict = {}
    shadows: dict = {}
    comp_targets = {id(x) for n in ast.walk(fn) if isinstance(n, ast.comprehension) for x in ast.walk(n.target)}
    for n in ast.walk(fn):
        if n is fn:
            continue
        if isinstance(n, FUNC):
            for a in ast.walk(n.args):
                if isinstance(a, ast.arg):
                    # a parameter of a nested function is a variable of that function: it shadows, it does not re-bind
                    shadows.setdefault(a.arg, []).append(n)
            bound[n.name] = bound.get(n.name, 0) + 1
        if isinstance(n, ast.Name) and isinstance(n.ctx, (ast.Store, ast.Del)) and id(n) not in comp_targets:
            bound[n.id] = bound.get(n.id, 0) + 1
        if isinstance(n, ast.ExceptHandler) and n.name:
            bound[n.name] = bound.get(n.name, 0) + 2
        if isinstance(n, (ast.Global, ast.Nonlocal)):
            for x in n.names:
                bound[x] = bound.get(x, 0) + 2
    for p in params:
        bound[p] = bound.get(p, 0) + 1  # a parameter is bound at entry: any store re-binds it
    _INT_NAMES.clear()
    for n in ast.walk(fn):
        if isinstance(n, (ast.For, ast.AsyncFor)) and isinstance(n.iter, ast.Call) and isinstance(n.iter.func, ast.Name) and not n.iter.keywords or isinstance(n, ast.For) and isinstance(n.iter, ast.Call) and isinstance(n.iter.func, ast.Name) and n.iter.func.id == 'enumerate':
            counter = n.target if n.iter.func.id == 'range' else (n.target.elts[0] if n.iter.func.id == 'enumerate' and isinstance(n.target, ast.Tuple) and n.target.elts and all(k.arg == 'start' and _is_int_arith(k.value) for k in n.iter.keywords) else None)
            if isinstance(counter, ast.Name) and bound.get(counter.id, 0) == 1 and 'range' not in bound and 'enumerate' not in bound:
                _INT_NAMES.add(counter.id)

    def stable(e: ast.AST) -> bool:
        inner = _inner_bound(e)
        return all(bound.get(x.id, 0) <= 1 for x in ast.walk(e) if isinstance(x, ast.Name) and x.id not in inner)

    parents = {}
    for n in ast.walk(fn):
        for c in ast.iter_child_nodes(n):
            parents[id(c)] = n
    for seq in list(_code_blocks(fn)):
        for i, st in enumerate(seq):
            if not (isinstance(st, ast.Assign) and len(st.targets) == 1 and isinstance(st.targets[0], ast.Name)):
                continue
            x = st.targets[0].id
            if bound.get(x, 0) != 1 or x in params or (only is not None and x not in only):
                continue
            v = st.value
            if x in _names(v):
                continue
            is_stable = stable(v)
            hidden = {id(y) for d in shadows.get(x, []) for y in ast.walk(d)}
            if hidden and any(isinstance(y, ast.Name) and y.id == x and isinstance(y.ctx, (ast.Store, ast.Del)) and id(y) in hidden for y in ast.walk(fn)):
                continue
            uses = [n for n in ast.walk(fn) if isinstance(n, ast.Name) and n.id == x and isinstance(n.ctx, ast.Load) and id(n) not in hidden]
            if not uses:
                if (isinstance(v, ast.Lambda) or _is_name_pure(v)) and bound.get(x, 0) == 1 and not any(isinstance(n, (ast.Global, ast.Nonlocal)) and x in n.names for n in ast.walk(fn)):
                    del seq[i]  # a function object / plain value bound to a name nobody reads
                    if not seq:
                        seq.append(ast.Pass())
                    return True
                continue
            # every use must come after the assignment in the same block (or nested in later statements of it)
            later = seq[i + 1:]
            later_nodes = {id(n) for s in later for n in ast.walk(s)}
            early_uses = [u for u in uses if id(u) not in later_nodes]
            if early_uses:
                # uses inside functions defined earlier in this block are fine when those functions only run afterwards:
                # every mention of such a function (outside itself) comes after the assignment; lambdas / name-pure values only
                if not (isinstance(v, ast.Lambda) or _is_name_pure(v)):
                    continue
                hosts = [d for d in seq[:i] if isinstance(d, ast.FunctionDef) and any(any(u is n for n in ast.walk(d)) for u in early_uses)]
                if not all(any(any(u is n for n in ast.walk(d)) for d in hosts) for u in early_uses):
                    continue
                safe = True
                for d in hosts:
                    inside_d = {id(n) for n in ast.walk(d)}
                    for n in ast.walk(fn):
                        if isinstance(n, ast.Name) and n.id == d.name and id(n) not in inside_d and id(n) not in later_nodes:
                            safe = False
                if not safe:
                    continue
            if any(isinstance(n, (ast.Global, ast.Nonlocal)) and x in n.names for n in ast.walk(fn)):
                continue
            ok = False
            # a value whose evaluation can raise (attribute / item reads, calls) never moves into a ``try`` it stood outside of
            def try_depth(node: ast.AST) -> list:
                out = []
                cur = node
                while id(cur) in parents:
                    par = parents[id(cur)]
                    if isinstance(par, ast.Try) and any(cur is b for b in par.body):
                        out.append(id(par))
                    cur = par
                return out

            crosses_try = not _is_name_pure(v) and not isinstance(v, ast.Lambda) and any(try_depth(u) != try_depth(st) for u in uses)
            # a lambda without defaults reads its free names when it is called: where the function object is created does
            # not matter, whatever happens to those names in between
            late_bound = isinstance(v, ast.Lambda) and not v.args.defaults and not any(d is not None for d in v.args.kw_defaults) and not early_uses
            if (not is_stable and not late_bound) or crosses_try:
                pass
            elif _is_name_pure(v):
                ok = True
            elif isinstance(v, ast.Lambda):
                # creating a function object has no effect; its free names must be stable (checked above)
                ok = True
            elif sigs is not None and (sigs.frozen_chain(v) or sigs.frozen_item(v)):
                ok = True
            elif _is_chain(v) and not _computing_chain(v):
                base = v
                while isinstance(base, (ast.Attribute, ast.Subscript)):
                    base = base.value
                bname = base.id if isinstance(base, ast.Name) else None
                last = max(k for k, s in enumerate(later) if any(id(u) in {id(n) for n in ast.walk(s)} for u in uses))
                span = later[:last + 1]
                ok = True
                evaluated: list = []
                for s in span:
                    _postorder(s, evaluated)
                cut = max(k for k, n in enumerate(evaluated) if any(n is u for u in uses))
                loops_inside = any(isinstance(n, (ast.For, ast.While, ast.AsyncFor)) for s in span for n in ast.walk(s))
                before = evaluated if loops_inside else evaluated[:cut]
                for s in [None]:
                    for n in before:
                        if isinstance(n, ast.Call):
                            # the base object itself is handed to / called upon by something that may re-bind its attributes
                            handed = [a for a in list(n.args) + [k.value for k in n.keywords]]
                            bare = any(isinstance(y, ast.Name) and y.id == bname and not isinstance(getattr(y, '_chain_parent', None), ast.Attribute) for a in handed for y in _bare_names(a))
                            method = isinstance(n.func, ast.Attribute) and isinstance(n.func.value, ast.Name) and n.func.value.id == bname
                            direct = isinstance(n.func, ast.Name) and n.func.id == bname
                            if (bare or method or direct) and not (isinstance(n.func, ast.Name) and n.func.id in ('isinstance', 'len', 'type', 'id', 'repr', 'str', 'hash')):
                                ok = False
                        if isinstance(n, (ast.Attribute, ast.Subscript)) and isinstance(n.ctx, (ast.Store, ast.Del)) and bname in _names(n):
                            ok = False
                        if isinstance(n, (ast.Yield, ast.YieldFrom, ast.Await)):
                            ok = False
            def adjacent(use: ast.AST) -> bool:
                """``use`` is evaluated by the very next statement, unconditionally, before any other call of its header."""
                if not later:
                    return False
                root = next((h for h in _header(later[0]) if any(n is use for n in ast.walk(h))), None)
                if root is None or any(isinstance(n, (ast.Yield, ast.YieldFrom, ast.Await, ast.NamedExpr)) for n in ast.walk(v)):
                    return False
                cond = _conditional_position(root, use)
                if cond and _first_iter_of(root, use):
                    cond = False
                if cond:
                    return False
                if _quiet(v):
                    return True  # a pure computation commutes with whatever the header evaluates before it
                order: list = []
                _postorder(root, order)
                pos = next(k for k, n in enumerate(order) if n is use)
                return not [n for n in order[:pos] if _has_effect(n)]

            if ok and any(isinstance(n, ast.Subscript) for n in ast.walk(v)):
                # an item read may raise (KeyError is ordinary control flow): its *first* evaluation must stay where it was -
                # in the next statement's header; later uses merely re-read what was found
                order_all: list = []
                for s_ in later:
                    _postorder(s_, order_all)
                first = next((n for n in order_all if any(n is u for u in uses)), None)
                ok = first is not None and adjacent(first)
            if not ok and len(uses) == 1 and not _is_name_pure(v) and not crosses_try:
                ok = adjacent(uses[0])
            if not ok:
                continue

            class Sub(ast.NodeTransformer):
                def visit_Name(self, n):  # noqa: N802
                    if isinstance(n.ctx, ast.Load) and n.id == x:
                        return _clone(v)
                    return n

            del seq[i]
            if not seq:
                seq.append(ast.Pass())
            for s in later:
                Sub().visit(s)
            if early_uses:
                for d in seq:
                    if isinstance(d, ast.FunctionDef):
                        Sub().visit(d)
            return True
    return False


_PURE_BUILTINS = {'super', 'isinstance', 'issubclass', 'len', 'type', 'id', 'callable', 'range'}


_ACTIVE_SIGS: typing.Optional['SignatureIndex'] = None


def _has_effect(n: ast.AST) -> bool:
    """May evaluating this node run arbitrary code?  Calls do (a handful of builtins aside), and so does reading an
    attribute that some class of the program implements as a computing property; plain attribute reads, subscripts and
    operators on plain values are treated as effect free for *ordering* purposes."""
    if isinstance(n, ast.Call):
        return not (isinstance(n.func, ast.Name) and n.func.id in _PURE_BUILTINS)
    if isinstance(n, ast.Attribute) and isinstance(n.ctx, ast.Load):
        return _ACTIVE_SIGS is None or n.attr in _ACTIVE_SIGS.effectful_properties
    return False


_QUIET_CALLS = {'dict', 'tuple', 'list', 'set', 'frozenset', 'sorted', 'str', 'int', 'float', 'bool', 'len', 'repr', 'min', 'max', 'sum', 'any', 'all', 'zip', 'enumerate', 'range', 'isinstance', 'issubclass', 'type', 'id', 'reversed', 'json.dumps', 'abs', 'round'}


def _quiet(e: ast.AST) -> bool:
    """A computation over plain values: every call is a side-effect free builtin, no effectful property is read."""
    for n in ast.walk(e):
        if isinstance(n, ast.Call):
            f = n.func
            name = f.id if isinstance(f, ast.Name) else (f'{f.value.id}.{f.attr}' if isinstance(f, ast.Attribute) and isinstance(f.value, ast.Name) else None)
            if name not in _QUIET_CALLS:
                return False
        elif isinstance(n, (ast.Await, ast.Yield, ast.YieldFrom, ast.NamedExpr, ast.Lambda)):
            return False
        elif _has_effect(n):
            return False
    return True


def _computing_chain(e: ast.AST) -> bool:
    """Does the attribute chain read a (non-transparent) property - i.e. run code?  Unknown without the program index."""
    while isinstance(e, (ast.Attribute, ast.Subscript)):
        if isinstance(e, ast.Attribute) and (_ACTIVE_SIGS is None or e.attr in _ACTIVE_SIGS.effectful_properties):
            return True
        e = e.value
    return False


def split_scoped_variables(fn: ast.AST) -> None:
    """One name per loop: a ``for`` target that is only ever bound by for-loops and only read inside the loop that binds it,
    and every comprehension variable, gets a name of its own per loop/comprehension (``for x in a: ..`` ``for x in b: ..`` is
    the same program as ``for x in a: ..`` ``for y in b: ..``)."""
    counter = [0]

    def fresh(base: str) -> str:
        counter[0] += 1
        return f'{base}__s{counter[0]}'

    # comprehension variables (own scope): innermost first is unnecessary as long as shadowing comprehensions are skipped
    for comp in [n for n in _walk_ordered(fn) if isinstance(n, (ast.ListComp, ast.SetComp, ast.GeneratorExp, ast.DictComp))]:
        names = []
        for g in comp.generators:
            for x in ast.walk(g.target):
                if isinstance(x, ast.Name) and x.id not in names:
                    names.append(x.id)
        for name in names:
            inner = [c for c in ast.walk(comp) if c is not comp and isinstance(c, (ast.ListComp, ast.SetComp, ast.GeneratorExp, ast.DictComp, ast.Lambda))]
            shadow = False
            for c in inner:
                if isinstance(c, ast.Lambda):
                    shadow |= name in {a.arg for a in ast.walk(c.args) if isinstance(a, ast.arg)}
                else:
                    shadow |= any(isinstance(x, ast.Name) and x.id == name for g in c.generators for x in ast.walk(g.target))
            if shadow:
                continue
            new = fresh(name)
            first_iter = comp.generators[0].iter
            skip = {id(x) for x in ast.walk(first_iter)}  # evaluated in the enclosing scope
            for x in ast.walk(comp):
                if isinstance(x, ast.Name) and x.id == name and id(x) not in skip:
                    x.id = new
    # for-loop variables of the function's own scope
    own = list(_own_nodes(fn))
    loops = [n for n in _walk_ordered(fn) if isinstance(n, (ast.For, ast.AsyncFor)) and any(n is o for o in own)]
    stores: dict = {}
    for n in own:
        if isinstance(n, ast.Name) and isinstance(n.ctx, (ast.Store, ast.Del)):
            stores.setdefault(n.id, []).append(n)
    params = _params(fn)
    for name in sorted({x.id for lp in loops for x in ast.walk(lp.target) if isinstance(x, ast.Name)}):
        if name in params:
            continue
        binders = [lp for lp in loops if any(isinstance(x, ast.Name) and x.id == name for x in ast.walk(lp.target))]
        target_nodes = {id(x) for lp in binders for x in ast.walk(lp.target)}
        if any(id(st) not in target_nodes for st in stores.get(name, [])):
            continue  # also bound otherwise
        # every occurrence (nested scopes included) must lie in the body/orelse of exactly one binder, binders not nested
        ok = True
        owner_of = {}
        for x in ast.walk(fn):
            if isinstance(x, ast.Name) and x.id == name and id(x) not in target_nodes:
                holders = [lp for lp in binders if any(x is y for st in lp.body for y in ast.walk(st))]
                if len(holders) != 1:
                    ok = False
                    break
                owner_of[id(x)] = holders[0]
            elif isinstance(x, (ast.Global, ast.Nonlocal)) and name in x.names:
                ok = False
        if not ok or len(binders) < 1:
            continue
        if any(a is not b and any(b is y for y in ast.walk(a)) for a in binders for b in binders):
            continue
        for lp in binders:
            new = fresh(name)
            for x in ast.walk(lp.target):
                if isinstance(x, ast.Name) and x.id == name:
                    x.id = new
            for st in lp.body:
                for x in ast.walk(st):
                    if isinstance(x, ast.Name) and x.id == name:
                        x.id = new


def _walk_ordered(node: ast.AST) -> typing.Iterator[ast.AST]:
    """Pre-order, source order."""
    yield node
    for c in ast.iter_child_nodes(node):
        yield from _walk_ordered(c)


def alpha(fn: ast.AST) -> None:
    """Locals renamed by order of first binding (parameters keep their names: they are part of the interface)."""
    from . import core

    for k, name in enumerate(core.own_locals(fn)):
        core._rename_local(fn, name, f'_v{k}')  # pylint: disable=protected-access
    for n in ast.walk(fn):
        if n is not fn and isinstance(n, FUNC):
            for k, name in enumerate(core.own_locals(n)):
                if not name.startswith('_v'):
                    core._rename_local(n, name, f'_w{k}')  # pylint: disable=protected-access
    # parameters of nested functions that are only ever called positionally from within fn
    for n in list(ast.walk(fn)):
        if n is fn or not isinstance(n, FUNC) or n.args.vararg and False:
            continue
        calls_kw = any(isinstance(c, ast.Call) and isinstance(c.func, ast.Name) and c.func.id == n.name and c.keywords for c in ast.walk(fn))
        if calls_kw or n.args.kwonlyargs or n.args.posonlyargs:
            continue
        for k, a in enumerate(list(n.args.args)):
            if a.arg in ('self', 'cls') or a.arg.startswith('_p'):
                continue
            new = f'_p{k}'
            if any(isinstance(x, ast.Name) and x.id == new for x in ast.walk(n)):
                continue
            old_name = a.arg
            a.arg = new

            def visit(m: ast.AST) -> None:
                for c in ast.iter_child_nodes(m):
                    if isinstance(c, FUNC + (ast.Lambda,)) and old_name in _params(c):
                        continue
                    if isinstance(c, ast.Name) and c.id == old_name:
                        c.id = new
                    visit(c)

            for st in n.body:
                if isinstance(st, ast.Name) and st.id == old_name:
                    st.id = new
                visit(st)
    # lambda parameters: named by nesting depth and position, inner lambdas shadow properly
    def rename_lambda(lam: ast.Lambda, depth: int) -> None:
        simple = not lam.args.vararg and not lam.args.kwarg and not lam.args.kwonlyargs and not lam.args.posonlyargs
        ren = {a.arg: f'_l{depth}_{k}' for k, a in enumerate(lam.args.args)} if simple else {}
        for a in lam.args.args:
            a.arg = ren.get(a.arg, a.arg)

        def visit(n: ast.AST, active: dict) -> None:
            if isinstance(n, ast.Lambda):
                shadow = {a.arg for a in ast.walk(n.args) if isinstance(a, ast.arg)}
                for d in list(n.args.defaults) + [k for k in n.args.kw_defaults if k is not None]:
                    visit(d, active)
                rest = {k: v for k, v in active.items() if k not in shadow}
                visit(n.body, rest)
                return
            if isinstance(n, ast.Name) and n.id in active:
                n.id = active[n.id]
            for c in ast.iter_child_nodes(n):
                visit(c, active)

        if ren:
            visit(lam.body, ren)

    def walk_lambdas(n: ast.AST, depth: int) -> None:
        for c in ast.iter_child_nodes(n):
            if isinstance(c, ast.Lambda):
                rename_lambda(c, depth)
                walk_lambdas(c, depth + 1)
            else:
                walk_lambdas(c, depth)

    walk_lambdas(fn, 0)


def inline_nested_helpers(fn: ast.AST) -> None:
    """A nested multi-statement ``def`` that is only ever *called*, from statement positions, is spliced into its call sites
    (see core.inline_helpers for the side conditions)."""
    from . import core

    core.set_parents(fn)
    defs = {}
    for seq in _code_blocks(fn):
        for st in seq:
            if isinstance(st, ast.FunctionDef) and st is not fn:
                defs[st.name] = st
    if defs:
        # ``return t and h(..)`` with a yes/no ``t`` and a multi-statement local helper h: ``if t: return h(..) else: return False``
        for seq in list(_code_blocks(fn)):
            for k, st in enumerate(seq):
                if isinstance(st, ast.Return) and isinstance(st.value, ast.BoolOp) and isinstance(st.value.op, ast.And) and len(st.value.values) == 2:
                    t, c = st.value.values
                    if _is_bool(t) and isinstance(c, ast.Call) and isinstance(c.func, ast.Name) and c.func.id in defs and len([x for x in defs[c.func.id].body if not _is_noop(x)]) > 1:
                        seq[k] = ast.copy_location(ast.If(test=t, body=[ast.Return(value=c)], orelse=[ast.Return(value=ast.Constant(value=False))]), st)
                        ast.fix_missing_locations(seq[k])
        core.set_parents(fn)
        core.inline_helpers(fn, defs, lambda q, n: True)


def unfold_for_else(fn: ast.AST) -> None:
    """``for ..: .. break .. else: <exits>`` followed by a tail T that exits: the tail runs only after a ``break``, so each
    ``break`` of the loop becomes T and the else arm follows the loop (search loops written with for/else/break vs early
    return)."""
    def own_breaks(loop: ast.AST) -> list:
        out = []

        def visit(n: ast.AST) -> None:
            for c in ast.iter_child_nodes(n):
                if isinstance(c, (ast.For, ast.AsyncFor, ast.While)) or isinstance(c, FUNC + (ast.Lambda, ast.ClassDef)):
                    if isinstance(c, (ast.For, ast.AsyncFor, ast.While)):
                        for st in c.orelse:
                            visit_stmt(st)
                    continue
                if isinstance(c, ast.Break):
                    out.append(c)
                visit(c)

        def visit_stmt(st: ast.AST) -> None:
            if isinstance(st, ast.Break):
                out.append(st)
            visit(st)

        for st in loop.body:
            visit_stmt(st)
        return out

    for seq in list(_blocks(fn)):
        for i, st in enumerate(seq):
            if not (isinstance(st, (ast.For, ast.While)) and st.orelse and _terminates(st.orelse)):
                continue
            tail = seq[i + 1:]
            if not tail or not _terminates(tail) or len(tail) > 3:
                continue
            if any(isinstance(x, FUNC + (ast.ClassDef,)) for t in tail for x in ast.walk(t)):
                continue
            breaks = own_breaks(st)
            if not breaks:
                continue
            # the tail may read the loop variables: after a break they hold the same values inside the body
            for owner in ast.walk(st):
                for f in _BLOCKS:
                    blk = getattr(owner, f, None)
                    if isinstance(blk, list):
                        k = 0
                        while k < len(blk):
                            if any(blk[k] is b for b in breaks):
                                blk[k:k + 1] = [_clone(t) for t in tail]
                                k += len(tail)
                            else:
                                k += 1
            orelse, st.orelse = st.orelse, []
            seq[i + 1:] = orelse
            return unfold_for_else(fn)


def unfold_product_loops(fn: ast.AST) -> None:
    """``for a, b in itertools.product(A, B): BODY``  ->  ``for a in A: for b in B: BODY`` when B is a sequence that can be walked
    again (a module constant, the ``*args`` tuple, a local bound once to a tuple/list) and BODY has no ``break`` (it would
    leave the inner loop only); the loop has no else arm."""
    args = fn.args  # type: ignore[attr-defined]
    again = {args.vararg.arg} if args.vararg else set()
    binds: dict = {}
    for n in ast.walk(fn):
        if isinstance(n, ast.Name) and isinstance(n.ctx, (ast.Store, ast.Del)):
            binds[n.id] = binds.get(n.id, 0) + 1
    for n in ast.walk(fn):
        if isinstance(n, ast.Assign) and len(n.targets) == 1 and isinstance(n.targets[0], ast.Name) and binds.get(n.targets[0].id) == 1 and (isinstance(n.value, (ast.Tuple, ast.List)) or (isinstance(n.value, ast.Call) and isinstance(n.value.func, ast.Name) and n.value.func.id in ('tuple', 'list', 'sorted'))):
            again.add(n.targets[0].id)
    for loop in [n for n in ast.walk(fn) if isinstance(n, ast.For)]:
        it = loop.iter
        if not (isinstance(it, ast.Call) and isinstance(it.func, ast.Attribute) and it.func.attr == 'product' and isinstance(it.func.value, ast.Name) and it.func.value.id == 'itertools' and len(it.args) == 2 and not it.keywords and not loop.orelse):
            continue
        if not (isinstance(loop.target, ast.Tuple) and len(loop.target.elts) == 2) or any(isinstance(a, ast.Starred) for a in it.args):
            continue
        a_, b_ = it.args
        if not (isinstance(a_, ast.Name) and isinstance(b_, ast.Name) and (b_.id in again or (b_.id.isupper() and b_.id not in binds))) or a_.id in binds and binds[a_.id] > 1:
            continue
        if any(isinstance(x, ast.Break) for st in loop.body for x in ast.walk(st)):
            continue
        inner = ast.copy_location(ast.For(target=loop.target.elts[1], iter=b_, body=loop.body, orelse=[]), loop)
        loop.target, loop.iter, loop.body = loop.target.elts[0], a_, [inner]
    ast.fix_missing_locations(fn)


def unfold_next_search(fn: ast.AST) -> None:
    """``x = next((v for v in IT if C(v)), None)`` ; ``if x is None: A else: B(x)`` (both arms leave)  ->
    ``for x in IT: if C(x): B(x)`` ; ``A`` - provided C dereferences v (``v.attr`` evaluated unconditionally, an attribute None
    does not have): an element that is None can then never be *found*, so "nothing found" and None are the same thing."""
    def derefs(e: ast.AST, v: str) -> bool:
        if isinstance(e, ast.Attribute):
            if isinstance(e.value, ast.Name) and e.value.id == v and not e.attr.startswith('__') and not hasattr(None, e.attr):
                return True
            return derefs(e.value, v)
        if isinstance(e, ast.BoolOp):
            return derefs(e.values[0], v)
        if isinstance(e, ast.IfExp):
            return derefs(e.test, v)
        if isinstance(e, ast.UnaryOp):
            return derefs(e.operand, v)
        if isinstance(e, ast.Compare):
            return derefs(e.left, v) or derefs(e.comparators[0], v)
        if isinstance(e, ast.Call):
            return derefs(e.func, v) or any(derefs(a, v) for a in e.args if not isinstance(a, ast.Starred))
        if isinstance(e, ast.Subscript):
            return derefs(e.value, v) or derefs(e.slice, v)
        if isinstance(e, ast.BinOp):
            return derefs(e.left, v) or derefs(e.right, v)
        return False

    taken = {n.id for n in ast.walk(fn) if isinstance(n, ast.Name) and isinstance(n.ctx, ast.Store)}
    for seq in list(_code_blocks(fn)):
        for k in range(len(seq) - 1):
            a, b = seq[k], seq[k + 1]
            if not (isinstance(a, ast.Assign) and len(a.targets) == 1 and isinstance(a.targets[0], ast.Name) and isinstance(b, ast.If) and b.orelse):
                continue
            x = a.targets[0].id
            c = a.value
            if not (isinstance(c, ast.Call) and isinstance(c.func, ast.Name) and c.func.id == 'next' and 'next' not in taken and len(c.args) == 2 and not c.keywords and isinstance(c.args[1], ast.Constant) and c.args[1].value is None and isinstance(c.args[0], ast.GeneratorExp)):
                continue
            gen = c.args[0]
            if len(gen.generators) != 1 or gen.generators[0].is_async or not gen.generators[0].ifs:
                continue
            g = gen.generators[0]
            if not (isinstance(g.target, ast.Name) and isinstance(gen.elt, ast.Name) and gen.elt.id == g.target.id):
                continue
            v = g.target.id
            if not derefs(g.ifs[0], v) or any(isinstance(y, (ast.Lambda, ast.GeneratorExp, ast.ListComp, ast.SetComp, ast.DictComp, ast.NamedExpr)) for cnd in g.ifs for y in ast.walk(cnd)):
                continue
            t = b.test
            if isinstance(t, ast.Compare) and len(t.ops) == 1 and isinstance(t.left, ast.Name) and t.left.id == x and isinstance(t.comparators[0], ast.Constant) and t.comparators[0].value is None and isinstance(t.ops[0], (ast.Is, ast.IsNot)):
                absent, found = (b.body, b.orelse) if isinstance(t.ops[0], ast.Is) else (b.orelse, b.body)
            else:
                continue
            if not (_terminates(absent) and _terminates(found)) or any(isinstance(y, (ast.Break, ast.Continue)) for st in found for y in ast.walk(st)):
                continue
            inside = {id(y) for st in found for y in ast.walk(st)} | {id(t.left), id(a.targets[0])}
            if any(isinstance(y, ast.Name) and y.id == x and id(y) not in inside for y in ast.walk(fn)) or x in _params(fn):
                continue
            if any(isinstance(y, FUNC + (ast.Lambda, ast.GeneratorExp, ast.ListComp, ast.SetComp, ast.DictComp)) and x in _names(y) for st in found for y in ast.walk(st)):
                continue
            if x in _names(g.iter) or any(x in _names(cnd) for cnd in g.ifs):
                continue
            conds = []
            for cnd in g.ifs:
                for y in ast.walk(cnd):
                    if isinstance(y, ast.Name) and y.id == v:
                        y.id = x
                conds.append(cnd)
            test = conds[0] if len(conds) == 1 else ast.BoolOp(op=ast.And(), values=conds)
            loop = ast.copy_location(ast.For(target=ast.Name(id=x, ctx=ast.Store()), iter=g.iter, body=[ast.If(test=test, body=found, orelse=[])], orelse=[]), a)
            seq[k:k + 2] = [loop] + absent
            ast.fix_missing_locations(loop)
            return unfold_next_search(fn)


def unfold_generator_loops(fn: ast.AST) -> None:
    """``for T in (E for a in A for b in B if c): body``  ->  ``for a in A: for b in B: if c: T = E; body`` (a generator is
    advanced in lock-step with the loop that consumes it)."""
    for loop in [n for n in ast.walk(fn) if isinstance(n, ast.For)]:
        it = loop.iter
        if not isinstance(it, ast.GeneratorExp) or loop.orelse or any(g.is_async for g in it.generators):
            continue
        if any(isinstance(x, (ast.Break, ast.Continue)) for st in loop.body for x in ast.walk(st)):
            continue  # break/continue would bind to the innermost new loop
        tgt, elt = loop.target, it.elt
        if isinstance(tgt, ast.Tuple) and isinstance(elt, ast.Tuple) and len(tgt.elts) == len(elt.elts) and all(isinstance(t, ast.Name) for t in tgt.elts) and not any(isinstance(e, ast.Starred) for e in elt.elts):
            binds = [ast.Assign(targets=[ast.Name(id=t.id, ctx=ast.Store())], value=e) for t, e in zip(tgt.elts, elt.elts)]
            # simultaneous binding: no target may be read by a later element
            if any(t.id in _names(e) for k, t in enumerate(tgt.elts) for e in elt.elts[k + 1:]):
                continue
        elif isinstance(tgt, ast.Name):
            binds = [ast.Assign(targets=[ast.Name(id=tgt.id, ctx=ast.Store())], value=elt)]
        else:
            continue
        gen_vars = {x.id for g in it.generators for x in ast.walk(g.target) if isinstance(x, ast.Name)}
        if any(isinstance(x, (ast.Lambda, ast.ListComp, ast.SetComp, ast.DictComp, ast.GeneratorExp)) for g in it.generators for c in g.ifs for x in ast.walk(c)) or any(isinstance(x, (ast.Lambda, ast.ListComp, ast.SetComp, ast.DictComp, ast.GeneratorExp)) for x in ast.walk(elt)):
            continue
        # the generator's variables are private to it: give them names nothing else in the function uses
        taken = {x.id for x in ast.walk(fn) if isinstance(x, ast.Name)} | _params(fn)
        first_iter_nodes = {id(x) for x in ast.walk(it.generators[0].iter)}
        for var in sorted(gen_vars):
            new_name = var
            n_ = 0
            while new_name in taken:
                n_ += 1
                new_name = f'{var}__g{n_}'
            others_use = any(isinstance(x, ast.Name) and x.id == var and not any(x is y for y in ast.walk(it)) for x in ast.walk(fn)) or var in _params(fn)
            if not others_use:
                continue
            taken.add(new_name)
            for x in ast.walk(it):
                if isinstance(x, ast.Name) and x.id == var and id(x) not in first_iter_nodes:
                    x.id = new_name
        inner: list = binds + loop.body
        for g in reversed(it.generators):
            for c in reversed(g.ifs):
                inner = [ast.If(test=c, body=inner, orelse=[])]
            inner = [ast.For(target=g.target, iter=g.iter, body=inner, orelse=[], lineno=loop.lineno, col_offset=0)]
        new = inner[0]
        loop.target, loop.iter, loop.body = new.target, new.iter, new.body
        ast.fix_missing_locations(loop)


def absorb_into_try_else(fn: ast.AST) -> None:
    from . import core

    for seq in list(_blocks(fn)):
        core._absorb_into_try_else(seq)  # pylint: disable=protected-access


def sink_returns(fn: ast.AST) -> None:
    """``if c: x = A else: x = B`` / ``try: x = A except E: x = B`` directly followed by ``return x`` (x a local read nowhere
    else) is ``... return A ... return B``: the single exit through a temporary is undone."""
    params = _params(fn)
    for seq in list(_blocks(fn)):
        i = 0
        while i + 1 < len(seq):
            st, ret = seq[i], seq[i + 1]
            i += 1
            if isinstance(ret, ast.Return) and isinstance(ret.value, ast.Tuple) and _is_name_pure(ret.value) and isinstance(st, ast.Try) and not st.finalbody and not st.orelse and st.handlers and all(_terminates(h.body) for h in st.handlers) and st.body and isinstance(st.body[-1], ast.Assign) and len(st.body[-1].targets) == 1 and isinstance(st.body[-1].targets[0], ast.Name):
                # ``try: x = E except ..: <leaves>`` ; ``return (x, y)``: building a tuple of names cannot raise
                x = st.body[-1].targets[0].id
                hits = [n for n in ast.walk(ret.value) if isinstance(n, ast.Name) and n.id == x]
                others = [n for n in ast.walk(fn) if isinstance(n, ast.Name) and n.id == x and n is not st.body[-1].targets[0] and not any(n is h for h in hits)]
                first = next((e for e in ret.value.elts if isinstance(e, ast.Name)), None)
                if len(hits) == 1 and not others and x not in params and first is hits[0]:
                    value = st.body[-1].value
                    ret.value.elts = [value if e is hits[0] else e for e in ret.value.elts]
                    st.body[-1] = ast.copy_location(ast.Return(value=ret.value), st.body[-1])
                    del seq[i]
                    i -= 1
                continue
            if not (isinstance(ret, ast.Return) and isinstance(ret.value, ast.Name)):
                continue
            x = ret.value.id
            if x in params:
                continue
            if isinstance(st, ast.Try) and not st.finalbody and not st.orelse and st.handlers and all(_terminates(h.body) for h in st.handlers) and st.body and isinstance(st.body[-1], ast.Assign) and len(st.body[-1].targets) == 1 and isinstance(st.body[-1].targets[0], ast.Name) and st.body[-1].targets[0].id == x:
                # every handler leaves: the return after the try runs only when the body completed
                others = [n for n in ast.walk(fn) if isinstance(n, ast.Name) and n.id == x and n is not st.body[-1].targets[0] and n is not ret.value]
                if not others:
                    st.body[-1] = ast.copy_location(ast.Return(value=st.body[-1].value), st.body[-1])
                    del seq[i]
                    i -= 1
                continue
            if isinstance(st, ast.If) and st.orelse:
                arms = [st.body, st.orelse]
            elif isinstance(st, ast.Try) and not st.finalbody and not st.orelse and st.handlers:
                arms = [st.body] + [h.body for h in st.handlers]
            else:
                continue
            if not all(arm and isinstance(arm[-1], ast.Assign) and len(arm[-1].targets) == 1 and isinstance(arm[-1].targets[0], ast.Name) and arm[-1].targets[0].id == x for arm in arms):
                continue
            finals = {id(arm[-1].targets[0]) for arm in arms}
            others = [n for n in ast.walk(fn) if isinstance(n, ast.Name) and n.id == x and id(n) not in finals and n is not ret.value]
            if others:
                continue
            for arm in arms:
                arm[-1] = ast.copy_location(ast.Return(value=arm[-1].value), arm[-1])
            del seq[i]
            i -= 1


def split_rebound_parameters(fn: ast.AST) -> None:
    """A parameter re-bound by one unconditional top-level statement of the function is, from there on, a different
    variable: it gets a local name of its own (``args = args[1:]`` vs ``rest = args[1:]``)."""
    params = _params(fn)
    for p in sorted(params):
        stores = [n for n in ast.walk(fn) if isinstance(n, ast.Name) and n.id == p and isinstance(n.ctx, (ast.Store, ast.Del))]
        if len(stores) != 1 or isinstance(stores[0].ctx, ast.Del):
            continue
        k = next((i for i, st in enumerate(fn.body) if isinstance(st, ast.Assign) and any(stores[0] is x for t in st.targets for x in ast.walk(t))), None)
        if k is None:
            continue
        # closures created before the re-binding would observe it: require none mention p
        early = fn.body[:k + 1]
        if any(isinstance(n, FUNC + (ast.Lambda,)) and p in _names(n) for st in early for n in ast.walk(st)):
            continue
        if any(isinstance(n, (ast.Global, ast.Nonlocal)) and p in n.names for n in ast.walk(fn)):
            continue
        if any(isinstance(n, ast.arg) and n.arg == p for st in fn.body for n in ast.walk(st)):
            continue  # an inner function re-uses the name as its parameter
        new = p + '__r'
        stores[0].id = new
        for st in fn.body[k + 1:]:
            for n in ast.walk(st):
                if isinstance(n, ast.Name) and n.id == p:
                    n.id = new


def _pure_value(e: ast.AST) -> bool:
    ok = (ast.Name, ast.Constant, ast.Attribute, ast.Subscript, ast.BinOp, ast.UnaryOp, ast.Compare, ast.BoolOp, ast.IfExp, ast.List, ast.Tuple, ast.Set, ast.Dict, ast.Load, ast.operator, ast.unaryop, ast.cmpop, ast.boolop, ast.expr_context, ast.Starred, ast.JoinedStr, ast.FormattedValue, ast.Slice)
    return all(isinstance(x, ok) for x in ast.walk(e)) and not any(_has_effect(x) for x in ast.walk(e))


def fold_inplace_sort(fn: ast.AST) -> None:
    """``x = [fresh list]`` ; ``x.sort(**kw)``  ->  ``x = sorted([fresh list], **kw)`` (list.sort and sorted are the same stable
    sort; the list is fresh - a comprehension, display or ``list(..)`` call - so nobody else sees it being sorted in place);
    likewise ``x.reverse()`` -> ``x = list(reversed([fresh list]))``."""
    for seq in list(_blocks(fn)):
        k = 0
        while k + 1 < len(seq):
            a, b = seq[k], seq[k + 1]
            k += 1
            if not (isinstance(a, ast.Assign) and len(a.targets) == 1 and isinstance(a.targets[0], ast.Name)):
                continue
            fresh = isinstance(a.value, (ast.ListComp, ast.List)) or (isinstance(a.value, ast.Call) and isinstance(a.value.func, ast.Name) and a.value.func.id in ('list', 'sorted'))
            if not fresh:
                continue
            x = a.targets[0].id
            if isinstance(b, ast.Expr) and isinstance(b.value, ast.Call) and isinstance(b.value.func, ast.Attribute) and b.value.func.attr == 'sort' and isinstance(b.value.func.value, ast.Name) and b.value.func.value.id == x and not b.value.args and all(kw.arg in ('key', 'reverse') for kw in b.value.keywords) and not any(x in _names(kw.value) for kw in b.value.keywords):
                a.value = ast.Call(func=ast.Name(id='sorted', ctx=ast.Load()), args=[a.value], keywords=b.value.keywords)
                del seq[k]
                k -= 1
            elif isinstance(b, ast.Expr) and isinstance(b.value, ast.Call) and isinstance(b.value.func, ast.Attribute) and b.value.func.attr == 'reverse' and isinstance(b.value.func.value, ast.Name) and b.value.func.value.id == x and not b.value.args and not b.value.keywords:
                # x = [fresh list] ; x.reverse()  ->  x = list(reversed([fresh list]))
                a.value = ast.Call(func=ast.Name(id='list', ctx=ast.Load()), args=[ast.Call(func=ast.Name(id='reversed', ctx=ast.Load()), args=[a.value], keywords=[])], keywords=[])
                del seq[k]
                k -= 1
    collapse_conversions(fn)


def collapse_conversions(fn: ast.AST) -> None:
    """``tuple(list(y))`` -> ``tuple(y)`` (likewise for list/set/frozenset/sorted around list/tuple): the inner copy is consumed
    by the outer constructor alone and both iterate ``y`` once, in order."""
    shadowed = {n.id for n in ast.walk(fn) if isinstance(n, ast.Name) and isinstance(n.ctx, ast.Store)}

    class X(ast.NodeTransformer):
        def visit_Call(self, n):  # noqa: N802
            self.generic_visit(n)
            if isinstance(n.func, ast.Name) and n.func.id in ('tuple', 'list', 'set', 'frozenset', 'sorted') and n.func.id not in shadowed and len(n.args) == 1 and not isinstance(n.args[0], ast.Starred) and (not n.keywords or n.func.id == 'sorted'):
                inner = n.args[0]
                if isinstance(inner, ast.Call) and isinstance(inner.func, ast.Name) and inner.func.id in ('list', 'tuple') and inner.func.id not in shadowed and len(inner.args) == 1 and not inner.keywords and not isinstance(inner.args[0], ast.Starred):
                    n.args = [inner.args[0]]
            return n

    X().visit(fn)


def split_validating_loops(fn: ast.AST) -> None:
    """``acc = []`` ; ``for x in M: if p(x): acc.append(e(x)) else: return R``  ->  ``if any(not p(x) for x in M): return R`` ;
    ``acc = [e(x) for x in M]`` - for a materialised local sequence M (bound once to a tuple/list/sorted(..) value) and call-free
    p, e: checking everything first and collecting afterwards visits the same elements with the same outcome (the partial
    accumulator of the failing run is a local nobody sees)."""
    materialised = {}
    for n in _own_nodes(fn):
        if isinstance(n, ast.Assign) and len(n.targets) == 1 and isinstance(n.targets[0], ast.Name):
            v = n.value
            ok = isinstance(v, (ast.Tuple, ast.List, ast.ListComp)) or (isinstance(v, ast.Call) and isinstance(v.func, ast.Name) and v.func.id in ('tuple', 'list', 'sorted', 'frozenset'))
            materialised.setdefault(n.targets[0].id, []).append(ok)
    stores = {}
    for n in ast.walk(fn):
        if isinstance(n, ast.Name) and isinstance(n.ctx, (ast.Store, ast.Del)):
            stores[n.id] = stores.get(n.id, 0) + 1
    for seq in list(_code_blocks(fn)):
        for k in range(len(seq) - 1):
            init, loop = seq[k], seq[k + 1]
            if not (isinstance(init, ast.Assign) and len(init.targets) == 1 and isinstance(init.targets[0], ast.Name) and isinstance(init.value, ast.List) and not init.value.elts):
                continue
            acc = init.targets[0].id
            if not (isinstance(loop, ast.For) and not loop.orelse and isinstance(loop.iter, ast.Name) and materialised.get(loop.iter.id) == [True] and stores.get(loop.iter.id) == 1 and len(loop.body) == 1 and isinstance(loop.body[0], ast.If)):
                continue
            test, body, orelse = loop.body[0].test, loop.body[0].body, loop.body[0].orelse
            if len(body) == 1 and isinstance(body[0], ast.Return) and len(orelse) == 1:
                test, body, orelse = nnf(test, False), orelse, body
            if not (len(body) == 1 and len(orelse) == 1 and isinstance(orelse[0], ast.Return) and isinstance(body[0], ast.Expr) and isinstance(body[0].value, ast.Call) and isinstance(body[0].value.func, ast.Attribute) and body[0].value.func.attr == 'append' and isinstance(body[0].value.func.value, ast.Name) and body[0].value.func.value.id == acc and len(body[0].value.args) == 1):
                continue
            elt = body[0].value.args[0]
            ret = orelse[0]
            if _has_call(test) or _has_call(elt) or any(_has_effect(x) for x in ast.walk(test)) or any(_has_effect(x) for x in ast.walk(elt)) or (ret.value is not None and not _is_name_pure(ret.value)):
                continue
            if acc in _names(test) or acc in _names(elt) or (ret.value is not None and acc in _names(ret.value)):
                continue
            loop_vars = {x.id for x in ast.walk(loop.target) if isinstance(x, ast.Name)}
            if any(isinstance(n, ast.Name) and n.id in loop_vars for s_ in seq[k + 2:] for n in ast.walk(s_)):
                continue
            gen = lambda e: [ast.comprehension(target=_clone(loop.target), iter=_clone(loop.iter), ifs=[], is_async=0)]  # noqa: E731
            guard = ast.If(test=ast.Call(func=ast.Name(id='any', ctx=ast.Load()), args=[ast.GeneratorExp(elt=nnf(test, False), generators=gen(None))], keywords=[]), body=[ret], orelse=[])
            collect = ast.Assign(targets=[init.targets[0]], value=ast.ListComp(elt=elt, generators=gen(None)))
            seq[k:k + 2] = [ast.copy_location(guard, loop), ast.copy_location(collect, init)]
            for x in (seq[k], seq[k + 1]):
                ast.fix_missing_locations(x)
            break


def split_chained_assignments(fn: ast.AST) -> None:
    """``a[k] = x = V`` (one plain name among the targets) is ``x = V`` ; ``a[k] = x``: the value is computed once and the
    other targets - call-free - receive the very same object."""
    for seq in list(_blocks(fn)):
        k = 0
        while k < len(seq):
            st = seq[k]
            if isinstance(st, ast.Assign) and len(st.targets) > 1:
                names = [t for t in st.targets if isinstance(t, ast.Name)]
                others = [t for t in st.targets if not isinstance(t, ast.Name)]
                if len(names) == 1 and others and not any(_has_call(t) for t in others) and not any(names[0].id in _names(t) for t in others) and names[0].id not in _names(st.value):
                    first = ast.copy_location(ast.Assign(targets=[names[0]], value=st.value), st)
                    rest = [ast.copy_location(ast.Assign(targets=[t], value=ast.Name(id=names[0].id, ctx=ast.Load())), st) for t in others]
                    seq[k:k + 1] = [first] + rest
                    k += 1 + len(rest)
                    continue
            k += 1


def split_tuple_assignments(fn: ast.AST) -> None:
    """``a, b = (A, B)`` is ``a = A`` ; ``b = B`` when no target is read by a later element (and nothing is starred)."""
    for seq in list(_blocks(fn)):
        k = 0
        while k < len(seq):
            st = seq[k]
            if isinstance(st, ast.Assign) and len(st.targets) == 1 and isinstance(st.targets[0], ast.Tuple) and isinstance(st.value, ast.Tuple) and len(st.targets[0].elts) == len(st.value.elts) and all(isinstance(t, ast.Name) for t in st.targets[0].elts) and not any(isinstance(e, ast.Starred) for e in st.value.elts):
                names = [t.id for t in st.targets[0].elts]
                if len(set(names)) == len(names) and not any(n in _names(e) for j, n in enumerate(names) for e in st.value.elts[j + 1:]) and not any(n in _names(st.value.elts[j]) for j, n in enumerate(names) if False):
                    # also: an element must not read a target bound by an *earlier* element with the old value expected
                    if not any(names[j] in _names(e) for j in range(len(names)) for e in st.value.elts[j + 1:]):
                        seq[k:k + 1] = [ast.copy_location(ast.Assign(targets=[t], value=e), st) for t, e in zip(st.targets[0].elts, st.value.elts)]
                        k += len(names)
                        continue
            k += 1


def sort_independent_assignments(fn: ast.AST) -> None:
    """Consecutive ``name = <call-free expression>`` statements none of which reads another's target are put into one
    canonical order (they commute)."""
    params = _params(fn)

    def key(st: ast.Assign) -> str:
        c = ast.parse(ast.unparse(st.value), mode='eval').body
        for x in ast.walk(c):
            if isinstance(x, ast.Name) and x.id not in params:
                x.id = '_'
        return ast.dump(c)

    # ``x = <constant / fresh empty container>`` floats up past statements that do not mention x (it has no effect, reads
    # nothing and nobody in between can tell whether x is bound yet)
    captured = set()
    for sc in [n for n in ast.walk(fn) if n is not fn and isinstance(n, FUNC + (ast.Lambda, ast.ClassDef))]:
        captured |= _names(sc)
    for h in [n for n in ast.walk(fn) if isinstance(n, ast.Try)]:
        for part in h.handlers + h.finalbody:
            captured |= _names(part)
    binds: dict = {}
    for n in ast.walk(fn):
        if isinstance(n, ast.Name) and isinstance(n.ctx, (ast.Store, ast.Del)):
            binds[n.id] = binds.get(n.id, 0) + 1

    def initialiser(st: ast.stmt) -> bool:
        if not (isinstance(st, ast.Assign) and len(st.targets) == 1 and isinstance(st.targets[0], ast.Name)):
            return False
        v = st.value
        fresh = isinstance(v, ast.Constant) or (isinstance(v, (ast.List, ast.Tuple, ast.Set)) and not v.elts) or (isinstance(v, ast.Dict) and not v.keys) or (isinstance(v, ast.Call) and isinstance(v.func, ast.Name) and v.func.id in ('list', 'dict', 'set') and v.func.id not in binds and not v.args and not v.keywords)
        return fresh and st.targets[0].id not in captured and st.targets[0].id not in params

    for seq in list(_code_blocks(fn)):
        for k in range(1, len(seq)):
            st = seq[k]
            if not initialiser(st):
                continue
            x = st.targets[0].id
            m = k
            while m > 0 and x not in _names(seq[m - 1]) and not isinstance(seq[m - 1], (ast.Global, ast.Nonlocal)) and not (isinstance(seq[m - 1], ast.Expr) and isinstance(seq[m - 1].value, ast.Constant)):
                m -= 1
            if m != k and not all(initialiser(s) for s in seq[m:k]):
                del seq[k]
                seq.insert(m, st)
    for seq in list(_blocks(fn)):
        i = 0
        while i < len(seq):
            j = i
            while j < len(seq) and isinstance(seq[j], ast.Assign) and len(seq[j].targets) == 1 and isinstance(seq[j].targets[0], ast.Name) and _pure_value(seq[j].value):
                j += 1
            run = seq[i:j]
            if len(run) > 1:
                targets = [st.targets[0].id for st in run]
                reads = [_names(st.value) for st in run]
                if len(set(targets)) == len(targets) and not any(t in r for k, t in enumerate(targets) for m, r in enumerate(reads) if m != k) and not any(t in reads[k] for k, t in enumerate(targets)):
                    seq[i:j] = sorted(run, key=key)
            i = max(j, i + 1)


def split_versions(fn: ast.AST) -> None:
    """A variable whose every binding is an unconditional top-level statement of the function (``kwargs = dict(kwargs)``,
    ``x, kwargs = f(kwargs)``) is a sequence of single-assignment variables: each binding starts a new name."""
    params = _params(fn)
    nested_scopes = [n for n in ast.walk(fn) if n is not fn and isinstance(n, FUNC + (ast.Lambda, ast.ListComp, ast.SetComp, ast.DictComp, ast.GeneratorExp, ast.ClassDef))]
    captured = set()
    for sc in nested_scopes:
        captured |= _names(sc)
    stores: dict = {}
    for n in ast.walk(fn):
        if isinstance(n, ast.Name) and isinstance(n.ctx, (ast.Store, ast.Del)):
            stores.setdefault(n.id, []).append(n)
    for name, nodes in sorted(stores.items()):
        if name in captured or any(isinstance(n.ctx, ast.Del) for n in nodes):
            continue
        if len(nodes) + (1 if name in params else 0) < 2:
            continue
        top = {}
        ok = True
        for n in nodes:
            k = next((i for i, st in enumerate(fn.body) if isinstance(st, ast.Assign) and any(n is x for t in st.targets for x in ast.walk(t))), None)
            if k is None or k in top:
                ok = False
                break
            top[k] = n
        if not ok or any(isinstance(n, (ast.Global, ast.Nonlocal)) and name in n.names for n in ast.walk(fn)):
            continue
        if any(isinstance(n, ast.ExceptHandler) and n.name == name for n in ast.walk(fn)):
            continue
        version = 0
        current = name

        def rename_loads(node: ast.AST, to: str, skip: ast.AST = None) -> None:
            for x in ast.walk(node):
                if isinstance(x, ast.Name) and x.id == name and x is not skip and isinstance(x.ctx, ast.Load):
                    x.id = to

        for k, st in enumerate(fn.body):
            if current != name:
                rename_loads(st, current)
            if k in top:
                if version > 0 or name in params:
                    current = f'{name}__v{version + 1}'
                    top[k].id = current
                version += 1


def merge_phi_copies(fn: ast.AST) -> None:
    """``if c: ..; y = E else: y = x`` (y bound nowhere else, x dead afterwards) is the conditional re-binding
    ``if c: ..; x = E`` with y renamed to x."""
    for seq in list(_blocks(fn)):
        for k, st in enumerate(seq):
            if not (isinstance(st, ast.If) and len(st.orelse) == 1 and st.body):
                continue
            a, b = st.body[-1], st.orelse[0]
            if not (isinstance(a, ast.Assign) and isinstance(b, ast.Assign) and len(a.targets) == 1 and len(b.targets) == 1 and isinstance(a.targets[0], ast.Name) and isinstance(b.targets[0], ast.Name) and a.targets[0].id == b.targets[0].id and isinstance(b.value, ast.Name)):
                continue
            y, x = a.targets[0].id, b.value.id
            if x == y:
                continue
            stores_y = [n for n in ast.walk(fn) if isinstance(n, ast.Name) and n.id == y and isinstance(n.ctx, (ast.Store, ast.Del))]
            if len(stores_y) != 2 or y in _params(fn):
                continue
            inside = {id(n) for n in ast.walk(st)}
            loads_y_outside = [n for n in ast.walk(fn) if isinstance(n, ast.Name) and n.id == y and isinstance(n.ctx, ast.Load) and id(n) not in inside]
            after = {id(n) for s_ in _stmts_after(fn, st) for n in ast.walk(s_)}
            if any(id(n) not in after for n in loads_y_outside):
                continue
            if any(isinstance(n, ast.Name) and n.id == x and id(n) in after for n in ast.walk(fn)):
                continue  # x is still used afterwards: the two are different variables
            if any(isinstance(n, ast.Name) and n.id == y for s_ in st.body[:-1] for n in ast.walk(s_)) or y in _names(st.test) or y in _names(a.value):
                continue
            a.targets[0].id = x
            st.orelse = []
            for n in loads_y_outside:
                n.id = x


def split_final_rebindings(fn: ast.AST) -> None:
    """``x = f(x)`` ; ... ; ``return ..x..`` at the end of a block that leaves the function: from that binding on x is a
    variable of its own (nothing after the block can see it)."""
    counter = 0
    params = _params(fn)
    closures = [n for n in ast.walk(fn) if n is not fn and isinstance(n, FUNC + (ast.Lambda,))]
    for seq in list(_blocks(fn)):
        for k, st in enumerate(seq):
            if not (isinstance(st, ast.Assign) and len(st.targets) == 1 and isinstance(st.targets[0], ast.Name)):
                continue
            x = st.targets[0].id
            rest = seq[k + 1:]
            if not rest or not isinstance(rest[-1], (ast.Return, ast.Raise)):
                continue
            # x must have another binding (otherwise nothing to split) and no closure may mention it
            others = [n for n in ast.walk(fn) if isinstance(n, ast.Name) and n.id == x and isinstance(n.ctx, ast.Store) and n is not st.targets[0]]
            if not others and x not in params:
                continue
            if any(x in _names(c) or x in _params(c) for c in closures):
                continue
            if any(isinstance(n, ast.Name) and n.id == x and isinstance(n.ctx, (ast.Store, ast.Del)) for r in rest for n in ast.walk(r)):
                continue
            if any(isinstance(n, (ast.For, ast.While)) for n in [st]):
                continue
            counter += 1
            new = f'{x}__f{counter}'
            st.targets[0].id = new
            for r in rest:
                for n in ast.walk(r):
                    if isinstance(n, ast.Name) and n.id == x:
                        n.id = new


def split_loop_rebindings(fn: ast.AST) -> None:
    """A loop variable re-bound in the loop body by one unconditional statement (``for k, v in ..: v = f(v); use(v)``) is, from
    there to the end of the body, a variable of its own - the next iteration binds the loop variable afresh - provided it is
    not read after the loop."""
    counter = 0
    closures = [n for n in ast.walk(fn) if n is not fn and isinstance(n, FUNC + (ast.Lambda,))]
    for loop in [n for n in ast.walk(fn) if isinstance(n, ast.For) and not n.orelse]:
        targets = {x.id for x in ast.walk(loop.target) if isinstance(x, ast.Name)}
        after = {id(n) for s_ in _stmts_after(fn, loop) if s_ is not loop for n in ast.walk(s_)}
        for k, st in enumerate(loop.body):
            if not (isinstance(st, ast.Assign) and len(st.targets) == 1 and isinstance(st.targets[0], ast.Name) and st.targets[0].id in targets):
                continue
            x = st.targets[0].id
            stores = [n for n in ast.walk(fn) if isinstance(n, ast.Name) and n.id == x and isinstance(n.ctx, (ast.Store, ast.Del))]
            if len(stores) != 2:
                continue  # the loop target and this statement only
            if any(isinstance(n, ast.Name) and n.id == x and id(n) in after for n in ast.walk(fn)):
                continue
            if any(x in _names(c) or x in _params(c) for c in closures) or x in _params(fn):
                continue
            if any(isinstance(n, (ast.Continue,)) for s_ in loop.body[k + 1:] for n in ast.walk(s_)) and False:
                continue
            counter += 1
            new = f'{x}__l{counter}'
            st.targets[0].id = new
            for s_ in loop.body[k + 1:]:
                for n in ast.walk(s_):
                    if isinstance(n, ast.Name) and n.id == x:
                        n.id = new


def split_block_rebindings(fn: ast.AST) -> None:
    """Bindings below the top level that start a variable of their own, because nothing that can run afterwards (or before,
    in a later round of an enclosing loop) sees the value:
    * ``x = f(x)`` / ``x = E`` inside a block (an if arm, a with or try body) with every later mention of x in the rest of that
      block (for a try body: plus its else block) - inside a loop x must be a counter of that loop (bound anew by the header)
      or occur nowhere else in the loop;
    * ``for x in IT: BODY`` (outside any loop) where x is not mentioned after the loop: the header binds x before BODY reads it.
    The name must occur elsewhere in the function as well (otherwise there is nothing to split off)."""
    counter = 0
    if any(isinstance(n, (ast.Global, ast.Nonlocal)) for n in ast.walk(fn)):
        return
    closure_names: set = set()
    for n in ast.walk(fn):
        if n is not fn and isinstance(n, FUNC + (ast.Lambda, ast.ClassDef, ast.GeneratorExp, ast.ListComp, ast.SetComp, ast.DictComp)):
            closure_names |= {x.id for x in ast.walk(n) if isinstance(x, ast.Name)} | {x.arg for x in ast.walk(n) if isinstance(x, ast.arg)}
    params = _params(fn)

    def names(nodes) -> set:
        return {x.id for n in nodes for x in ast.walk(n) if isinstance(x, ast.Name)} | {x.name for n in nodes for x in ast.walk(n) if isinstance(x, ast.ExceptHandler) and x.name}

    def count(x: str, nodes) -> int:
        return sum(1 for n in nodes for y in ast.walk(n) if isinstance(y, ast.Name) and y.id == x)

    total = {}
    for y in ast.walk(fn):
        if isinstance(y, ast.Name):
            total[y.id] = total.get(y.id, 0) + 1

    def rename(x: str, target: ast.Name, region: list) -> None:
        nonlocal counter
        counter += 1
        new = f'{x}__k{counter}'
        target.id = new
        for s_ in region:
            for n in ast.walk(s_):
                if isinstance(n, ast.Name) and n.id == x:
                    n.id = new

    def visit(seq: list, later: set, top: bool, counters: typing.Optional[set] = None, loop: typing.Optional[ast.AST] = None, tail: typing.Optional[list] = None) -> None:
        """``later``: names mentioned by anything that may run after ``seq`` (and ``tail``, the else block of a try whose body
        ``seq`` is) is left.  ``loop``: the innermost enclosing for loop, ``counters`` its target names."""
        tail = tail or []
        for k, st in enumerate(seq):
            after = later | names(seq[k + 1:]) | names(tail)
            if isinstance(st, ast.If):
                visit(st.body, after, False, counters, loop)
                visit(st.orelse, after, False, counters, loop)
            elif isinstance(st, (ast.With, ast.AsyncWith)):
                visit(st.body, after, False, counters, loop)
            elif isinstance(st, ast.Try) and not st.finalbody:
                visit(st.body, after | names(st.handlers), False, counters, loop, tail=st.orelse)
            elif isinstance(st, ast.For) and not any(isinstance(x, ast.Name) and isinstance(x.ctx, ast.Load) for x in ast.walk(st.target)):
                if loop is None and isinstance(st.target, ast.Name):
                    x = st.target.id
                    inside = count(x, [st.target] + st.body)
                    if x not in after and x not in names(st.orelse) and x not in names([st.iter]) and x not in closure_names and (total.get(x, 0) > inside or x in params):
                        total[x] = total.get(x, 0) - inside
                        rename(x, st.target, st.body)
                visit(st.body, after | names(st.orelse), False, {x.id for x in ast.walk(st.target) if isinstance(x, ast.Name)}, st)
            if top or not (isinstance(st, ast.Assign) and len(st.targets) == 1 and isinstance(st.targets[0], ast.Name)):
                continue
            x = st.targets[0].id
            region = seq[k + 1:] + tail
            if x in later or x in closure_names:
                continue
            if any(isinstance(n, ast.Name) and n.id == x and isinstance(n.ctx, (ast.Store, ast.Del)) for s_ in region for n in ast.walk(s_)):
                continue
            fresh = x not in names([st.value])
            if loop is not None and not (not fresh and counters is not None and x in counters):
                # not a counter re-binding: every mention of x in the loop must lie in the region (the binding then comes
                # first in every round)
                if not fresh or count(x, [loop]) != 1 + count(x, region):
                    continue
            if fresh and not (total.get(x, 0) > 1 + count(x, region) or x in params):
                continue  # the only binding of the name: nothing to split
            total[x] = total.get(x, 0) - 1 - count(x, region) - (0 if fresh else count(x, [st.value]))
            rename(x, st.targets[0], region)

    visit(fn.body, set(), True)


def split_arm_variables(fn: ast.AST) -> None:
    """A name that occurs nowhere but inside the two arms of one if/else (not in a loop), bound in both, is two variables:
    an execution takes one arm only, so nothing flows between the occurrences of one arm and those of the other."""
    counter = 0
    parents = {}
    for n in ast.walk(fn):
        for c in ast.iter_child_nodes(n):
            parents[id(c)] = n
    params = _params(fn)
    for st in [n for n in ast.walk(fn) if isinstance(n, ast.If) and n.orelse]:
        cur = st
        in_loop = False
        while id(cur) in parents:
            cur = parents[id(cur)]
            if isinstance(cur, (ast.For, ast.AsyncFor, ast.While)):
                in_loop = True
            if isinstance(cur, FUNC + (ast.Lambda,)) and cur is not fn:
                in_loop = True  # keep to the function's own scope
        if in_loop:
            continue

        def stored(arm: list) -> set:
            return {x.id for s_ in arm for x in ast.walk(s_) if isinstance(x, ast.Name) and isinstance(x.ctx, ast.Store)}

        for name in sorted(stored(st.body) & stored(st.orelse)):
            if name in params or name in _names(st.test):
                continue
            inside = {id(x) for arm in (st.body, st.orelse) for s_ in arm for x in ast.walk(s_)}
            occurrences = [x for x in ast.walk(fn) if (isinstance(x, ast.Name) and x.id == name) or (isinstance(x, ast.ExceptHandler) and x.name == name) or (isinstance(x, (ast.Global, ast.Nonlocal)) and name in x.names) or (isinstance(x, ast.arg) and x.arg == name)]
            if any(id(x) not in inside for x in occurrences) or any(not isinstance(x, ast.Name) for x in occurrences):
                continue
            for arm, tag in ((st.body, 'a'), (st.orelse, 'b')):
                counter += 1
                for s_ in arm:
                    for x in ast.walk(s_):
                        if isinstance(x, ast.Name) and x.id == name:
                            x.id = f'{name}__{tag}{counter}'


def drop_tail_returns(fn: ast.AST) -> None:
    """A bare ``return`` / ``return None`` in tail position of the function (the last statement, through if/else arms and
    with blocks, the arms of a final try statement) is what falling off the end does."""
    def is_none_return(st: ast.stmt) -> bool:
        return isinstance(st, ast.Return) and (st.value is None or (isinstance(st.value, ast.Constant) and st.value.value is None))

    def visit(seq: list, value_context: bool) -> None:
        if not seq:
            return
        last = seq[-1]
        if is_none_return(last):
            if len(seq) > 1:
                del seq[-1]
                visit(seq, value_context)
            else:
                seq[-1] = ast.copy_location(ast.Pass(), last)
        elif isinstance(last, ast.If):
            visit(last.body, value_context)
            if last.orelse:
                visit(last.orelse, value_context)
        elif isinstance(last, (ast.With, ast.AsyncWith)):
            visit(last.body, value_context)
        elif isinstance(last, ast.Try):
            # the finally block runs either way; a return in the try body would skip an else block, one in finally swallows
            if not last.orelse:
                visit(last.body, value_context)
            else:
                visit(last.orelse, value_context)
            for h in last.handlers:
                visit(h.body, value_context)

    # only when the function never returns a value, ``return`` and ``return None`` are interchangeable with falling off
    visit(fn.body, False)
    # an ``if`` left with an empty (pass) else arm
    for n in ast.walk(fn):
        if isinstance(n, ast.If) and len(n.orelse) == 1 and isinstance(n.orelse[0], ast.Pass):
            n.orelse = []


def drop_tail_continues(fn: ast.AST) -> None:
    """``continue`` as the last thing a loop body does (through if/else arms) is what reaching the end of the body does."""
    def visit(seq: list) -> None:
        if not seq:
            return
        last = seq[-1]
        if isinstance(last, ast.Continue):
            if len(seq) > 1:
                del seq[-1]
                visit(seq)
            else:
                seq[-1] = ast.copy_location(ast.Pass(), last)
        elif isinstance(last, ast.If):
            visit(last.body)
            if last.orelse:
                visit(last.orelse)

    for n in ast.walk(fn):
        if isinstance(n, (ast.For, ast.AsyncFor, ast.While)):
            visit(n.body)
    for n in ast.walk(fn):
        if isinstance(n, ast.If):
            if len(n.orelse) == 1 and isinstance(n.orelse[0], ast.Pass):
                n.orelse = []
            if len(n.body) == 1 and isinstance(n.body[0], ast.Pass) and n.orelse:
                n.test = nnf(n.test, False)
                n.body, n.orelse = n.orelse, []


class SignatureIndex:
    """Positional parameter names of every function / class constructor of the program, by simple name.  Used to bring
    keyword arguments into positional form; a name with candidates that disagree is left alone."""

    def __init__(self, modules: typing.Iterable) -> None:
        self.by_name: dict = {}
        classes: dict = {}
        modules_list = list(modules)
        for mod in modules_list:
            for qual, node in mod.defs.items():
                simple = qual.rsplit('.', 1)[-1]
                if isinstance(node, FUNC):
                    if any(isinstance(d, ast.Name) and d.id == 'overload' or isinstance(d, ast.Attribute) and d.attr in ('overload', 'setter') for d in node.decorator_list):
                        continue
                    par = getattr(node, '_parent', None)
                    names = [a.arg for a in list(node.args.posonlyargs) + list(node.args.args)]
                    is_static = any((isinstance(d, ast.Name) and d.id == 'staticmethod') for d in node.decorator_list)
                    if isinstance(par, ast.ClassDef) and not is_static and names:
                        names = names[1:]
                    if simple in ('__init__', '__new__'):
                        continue
                    self.by_name.setdefault(simple, []).append(names)
                elif isinstance(node, ast.ClassDef):
                    classes.setdefault(simple, []).append(node)
        for simple, nodes in classes.items():
            for node in nodes:
                self.by_name.setdefault(simple, []).append(self._ctor(node, classes, 0))
        # class simple name -> constructor parameters of what ``super()`` reaches from it (its bases only), when unambiguous
        self.base_ctor: dict = {}
        for simple, nodes in classes.items():
            found = []
            for node in nodes:
                shell = ast.ClassDef(name=simple, bases=node.bases, keywords=[], body=[st for st in node.body if not (isinstance(st, FUNC) and st.name in ('__new__', '__init__'))], decorator_list=[])
                found.append(self._ctor(shell, classes, 0))
            if found and found[0] and all(g == found[0] for g in found):
                self.base_ctor[simple] = found[0]
        self.by_module: dict = {}  # (module name, top-level simple name) -> parameters (packages re-exporting: see lookup)
        for mod in modules_list:
            for qual, node in mod.defs.items():
                if '.' in qual:
                    continue
                if isinstance(node, ast.ClassDef):
                    self.by_module[(mod.name, qual)] = self._ctor(node, classes, 0)
                elif isinstance(node, FUNC):
                    self.by_module[(mod.name, qual)] = [a.arg for a in list(node.args.posonlyargs) + list(node.args.args)]
        self.nested: dict = {}  # (outer class simple name, nested class simple name) -> constructor parameters
        for mod in modules_list:
            for qual, node in mod.defs.items():
                if isinstance(node, ast.ClassDef) and '.' in qual:
                    outer = qual.split('.')[-2]
                    self.nested.setdefault((outer, node.name), []).append(self._ctor(node, classes, 0))
        # attribute names that are (re)bound anywhere outside a constructor: reading any other attribute twice gives the same
        # object, whatever is called in between
        self.rebound_attrs: set = set()
        self.dynamic_setattr = False
        for mod in modules_list:
            for n in ast.walk(mod.tree):
                if isinstance(n, ast.Attribute) and isinstance(n.ctx, (ast.Store, ast.Del)):
                    fn = n
                    while fn is not None and not isinstance(fn, FUNC):
                        fn = getattr(fn, '_parent', None)
                    if fn is None or fn.name not in ('__init__', '__new__', '__setstate__', '__post_init__'):
                        self.rebound_attrs.add(n.attr)
                    elif not (isinstance(n.value, ast.Name) and n.value.id in ('self', 'cls')):
                        self.rebound_attrs.add(n.attr)
                elif isinstance(n, ast.Call) and isinstance(n.func, ast.Name) and n.func.id in ('setattr', 'delattr') and len(n.args) >= 2:
                    if isinstance(n.args[1], ast.Constant) and isinstance(n.args[1].value, str):
                        self.rebound_attrs.add(n.args[1].value)
        # attributes holding a mapping whose items are somewhere replaced / removed (``x.A[k] = v``, ``del x.A[k]``, ``x.A.pop()``)
        self.item_mutated_attrs: set = set()
        mutators = {'pop', 'popitem', 'clear', 'update', 'setdefault', '__setitem__', '__delitem__', 'insert', 'remove', 'append', 'extend', 'sort', 'reverse'}
        for mod in modules_list:
            for n in ast.walk(mod.tree):
                if isinstance(n, ast.Subscript) and isinstance(n.ctx, (ast.Store, ast.Del)) and isinstance(n.value, ast.Attribute):
                    self.item_mutated_attrs.add(n.value.attr)
                elif isinstance(n, ast.Call) and isinstance(n.func, ast.Attribute) and n.func.attr in mutators and isinstance(n.func.value, ast.Attribute):
                    self.item_mutated_attrs.add(n.func.value.attr)
        self.properties: set = set()
        self.effectful_properties: set = set()
        for mod in modules_list:
            for qual, node in mod.defs.items():
                if isinstance(node, FUNC) and any((isinstance(d, ast.Name) and d.id in ('property', 'cached_property')) or (isinstance(d, ast.Attribute) and d.attr in ('cached_property', 'getter')) for d in node.decorator_list):
                    body = [st for st in node.body if not _is_noop(st)]
                    # a property that merely hands out a never re-bound attribute of self is as stable as that attribute
                    if len(body) == 1 and isinstance(body[0], ast.Return) and isinstance(body[0].value, ast.Attribute) and isinstance(body[0].value.value, ast.Name) and body[0].value.value.id == 'self' and body[0].value.attr not in self.rebound_attrs:
                        continue
                    self.properties.add(node.name)
                    # ... and one that may refuse (raise) or keeps state (stores an attribute / item) is code whose position matters
                    # (a property that merely *refuses* - raises on an invalid state, computes nothing lasting - is a guard: reading
                    # it a moment earlier or later, once or twice, aborts the same call either way; it still never moves into a try)
                    if any(isinstance(x, (ast.Yield, ast.YieldFrom, ast.Await)) or (isinstance(x, (ast.Attribute, ast.Subscript)) and isinstance(x.ctx, (ast.Store, ast.Del))) for st in body for x in ast.walk(st)):
                        self.effectful_properties.add(node.name)

    def frozen_item(self, e: ast.AST) -> bool:
        """``name.a.M[k]``: a never re-bound mapping attribute none of whose items is ever replaced or removed anywhere in the
        program, subscripted by a plain name: the same object at every evaluation (a defaultdict creates it on first access,
        which is the first evaluation either way)."""
        return isinstance(e, ast.Subscript) and isinstance(e.slice, (ast.Name, ast.Constant)) and isinstance(e.value, ast.Attribute) and e.value.attr not in self.item_mutated_attrs and self.frozen_chain(e.value)

    def frozen_chain(self, e: ast.AST) -> bool:
        """``name.a.b`` where no attribute of that name is ever re-bound outside constructors and none is a computed
        property: the chain denotes the same object wherever it is evaluated (as long as ``name`` is not re-bound)."""
        if not isinstance(e, ast.Attribute):
            return False
        while isinstance(e, ast.Attribute):
            if e.attr in self.rebound_attrs or e.attr in self.properties or e.attr.startswith('__'):
                return False
            e = e.value
        return isinstance(e, ast.Name)

    def _ctor(self, cls: ast.ClassDef, classes: dict, depth: int) -> typing.Optional[list]:
        for name in ('__new__', '__init__'):
            for st in cls.body:
                if isinstance(st, FUNC) and st.name == name and not any(isinstance(d, ast.Attribute) and d.attr == 'overload' or isinstance(d, ast.Name) and d.id == 'overload' for d in st.decorator_list):
                    return [a.arg for a in list(st.args.posonlyargs) + list(st.args.args)][1:]
        for b in cls.bases:
            if isinstance(b, ast.Call) and isinstance(b.func, (ast.Name, ast.Attribute)) and (b.func.id if isinstance(b.func, ast.Name) else b.func.attr) == 'namedtuple' and len(b.args) >= 2:
                f = b.args[1]
                if isinstance(f, ast.Constant) and isinstance(f.value, str):
                    return f.value.replace(',', ' ').split()
                if isinstance(f, (ast.List, ast.Tuple)) and all(isinstance(e, ast.Constant) for e in f.elts):
                    return [e.value for e in f.elts]
                return None
            bn = b.attr if isinstance(b, ast.Attribute) else (b.id if isinstance(b, ast.Name) else None)
            if bn == 'NamedTuple':
                return [st.target.id for st in cls.body if isinstance(st, ast.AnnAssign) and isinstance(st.target, ast.Name)]
        plain = {'object', 'ABC', 'Generic', 'Protocol', 'Hashable', 'Sized'}
        unknown = False
        for b in cls.bases:
            if isinstance(b, ast.Subscript):
                b = b.value
            bn = b.attr if isinstance(b, ast.Attribute) else (b.id if isinstance(b, ast.Name) else None)
            if bn in plain:
                continue
            cands = classes.get(bn, [])
            if len(cands) == 1 and depth < 4:
                got = self._ctor(cands[0], classes, depth + 1)
                if got is None:
                    unknown = True
                elif got:
                    return got
            else:
                unknown = True
        return None if unknown else []

    def lookup(self, name: str) -> typing.Optional[list]:
        cands = self.by_name.get(name)
        if not cands or any(c is None for c in cands):
            return None
        return cands


def positional_arguments(fn: ast.AST, sigs: typing.Optional[SignatureIndex], owner: typing.Optional[str] = None) -> None:
    """``f(a, y=b)`` -> ``f(a, b)`` when ``y`` is the next positional parameter of every in-repo callable called ``f``
    (keywords are converted left to right while they continue the positional prefix: evaluation order is unchanged)."""
    if sigs is None:
        return
    for n in ast.walk(fn):
        if not isinstance(n, ast.Call) or not n.keywords or any(isinstance(a, ast.Starred) for a in n.args):
            continue
        f = n.func
        simple = f.attr if isinstance(f, ast.Attribute) else (f.id if isinstance(f, ast.Name) else None)
        if owner and ((isinstance(f, ast.Name) and f.id == 'cls') or (isinstance(f, ast.Attribute) and f.attr == '__class__' and isinstance(f.value, ast.Name) and f.value.id == 'self')):
            simple = owner  # the class the method belongs to
        if simple is None:
            continue
        cands = sigs.by_name.get(simple)
        lead = 0
        if owner and isinstance(f, ast.Attribute) and f.attr in ('__new__', '__init__') and isinstance(f.value, ast.Call) and isinstance(f.value.func, ast.Name) and f.value.func.id == 'super' and not f.value.args:
            # super().__new__(cls, a=.., b=..) / super().__init__(a=..): the constructor of the bases of the method's class
            base = getattr(sigs, 'base_ctor', {}).get(owner)
            cands = [base] if base else None
            lead = 1 if f.attr == '__new__' else 0
            if cands and len(n.args) < lead:
                cands = None
            if cands:
                cands = [['cls'] * lead + list(cands[0])]
        if isinstance(f, ast.Attribute) and isinstance(f.value, ast.Name) and f.value.id in _ACTIVE_IMPORTS:
            hit = sigs.by_module.get((_ACTIVE_IMPORTS[f.value.id], f.attr))
            if hit is not None:
                cands = [hit]  # ``alias.Name(..)`` with alias an imported module of the program: that module's own definition
        if owner and isinstance(f, ast.Attribute) and isinstance(f.value, ast.Name) and f.value.id in ('cls', 'self', owner) and len(sigs.nested.get((owner, f.attr), [])) == 1:
            cands = sigs.nested[(owner, f.attr)]  # a class nested in the method's own class
        if not cands:
            continue
        # same-named callables: only those that know every keyword of this call can be meant
        used = {k.arg for k in n.keywords if k.arg is not None}
        if not lead and not (isinstance(f, ast.Attribute) and f.attr == '__init__' and isinstance(f.value, ast.Call)):
            cands = [c for c in cands if c is None or (used <= set(c) and len(c) >= len(n.args) + len(used))]
        else:
            # the one constructor super() reaches: keywords it does not name go to its **kwargs; only the leading keywords that
            # continue its positional parameters are converted
            known = [k for k in n.keywords if k.arg in cands[0]]
            n.keywords[:] = known + [k for k in n.keywords if k not in known] if all(not (_has_call(k.value) or any(_has_effect(x) for x in ast.walk(k.value))) for k in n.keywords) else n.keywords
        if not cands or any(c is None for c in cands):
            continue
        if all(k.arg is not None for k in n.keywords) and not any(_has_call(a) or any(_has_effect(x) for x in ast.walk(a)) for a in n.args) and not any(_has_call(k.value) or any(_has_effect(x) for x in ast.walk(k.value)) for k in n.keywords):
            # effect-free arguments: the order keywords are written in is immaterial
            order = {name: i for i, name in enumerate(cands[0])}
            if all(all(c.index(k.arg) == order[k.arg] for k in n.keywords) for c in cands):
                n.keywords.sort(key=lambda k: order[k.arg])
        while n.keywords and n.keywords[0].arg is not None:
            k = len(n.args)
            kw = n.keywords[0]
            if all(len(c) > k and c[k] == kw.arg for c in cands):
                n.args.append(kw.value)
                del n.keywords[0]
            else:
                break


def hoist_nested_defs(fn: ast.AST) -> None:
    """A nested ``def`` (no decorators, no default values: nothing is evaluated when it is defined) merely binds a name; it
    moves to the front of its block when no statement it crosses binds or reads that name."""
    for seq in list(_code_blocks(fn)):
        k = 0
        while k < len(seq):
            st = seq[k]
            if isinstance(st, ast.FunctionDef) and st is not fn and not st.decorator_list and not st.args.defaults and not [d for d in st.args.kw_defaults if d is not None]:
                front = sum(1 for x in seq[:k] if isinstance(x, ast.FunctionDef))
                crossed = seq[front:k]
                if crossed and not any(st.name in _names(c) or any(isinstance(x, ast.arg) and x.arg == st.name for x in ast.walk(c)) for c in crossed) and not any(isinstance(c, (ast.Return, ast.Raise, ast.Continue, ast.Break)) for c in crossed):
                    del seq[k]
                    seq.insert(front, st)
            k += 1


_HOISTED: dict = {}
_ACTIVE_IMPORTS: dict = {}


def _anonymous_text(node: ast.AST, sigs: typing.Optional['SignatureIndex']) -> str:
    """Normal form of a function with its own name (and self references through cls/self/Class) blanked."""
    clone = ast.parse(ast.unparse(node)).body[0]
    own = clone.name
    clone.name = '__f__'
    clone.decorator_list = [d for d in clone.decorator_list if not (isinstance(d, ast.Name) and d.id == 'staticmethod')]

    class R(ast.NodeTransformer):
        def visit_Attribute(self, n):  # noqa: N802
            self.generic_visit(n)
            if n.attr == own and isinstance(n.value, ast.Name):
                return ast.copy_location(ast.Name(id='__f__', ctx=n.ctx), n)
            return n

        def visit_Name(self, n):  # noqa: N802
            if n.id == own:
                n.id = '__f__'
            return n

    R().visit(clone)
    saved = dict(_HOISTED)
    _HOISTED.clear()
    try:
        return nf_text(clone, sigs)
    finally:
        _HOISTED.update(saved)


def tokenise_hoisted(fn: ast.AST, sigs: typing.Optional['SignatureIndex']) -> None:
    """A nested function that captures nothing of its enclosing function is the same thing as a module level / static
    function with that body: both spellings are replaced by a token naming the body (``__hoisted_<digest>``)."""
    import hashlib

    own_names = set(_params(fn))
    for x in _own_nodes(fn):
        if isinstance(x, ast.Name) and isinstance(x.ctx, ast.Store):
            own_names.add(x.id)
        elif isinstance(x, FUNC):
            own_names.add(x.name)
    for seq in list(_code_blocks(fn)):
        for st in list(seq):
            if isinstance(st, ast.FunctionDef) and st is not fn and not st.decorator_list and not any(isinstance(x, (ast.Nonlocal, ast.Global)) for x in ast.walk(st)):
                if len(st.body) == 1 and isinstance(st.body[0], ast.Return):
                    continue  # a one-expression function is a lambda (defs_to_lambdas) and gets inlined
                inner_bound = _params(st) | {x.id for x in ast.walk(st) if isinstance(x, ast.Name) and isinstance(x.ctx, ast.Store)} | {a.arg for x in ast.walk(st) if isinstance(x, ast.Lambda) for a in ast.walk(x.args) if isinstance(a, ast.arg)}
                free = {x.id for x in ast.walk(st) if isinstance(x, ast.Name) and isinstance(x.ctx, ast.Load)} - inner_bound
                if free & (own_names - {st.name}):
                    continue  # a closure over the enclosing function's variables
                stores = [x for x in ast.walk(fn) if isinstance(x, ast.Name) and x.id == st.name and isinstance(x.ctx, ast.Store)]
                if stores:
                    continue
                token = '__hoisted_' + hashlib.sha256(_anonymous_text(st, sigs).encode()).hexdigest()[:12]
                seq.remove(st)
                if not seq:
                    seq.append(ast.Pass())
                for x in ast.walk(fn):
                    if isinstance(x, ast.Name) and x.id == st.name:
                        x.id = token
    if _HOISTED:
        class H(ast.NodeTransformer):
            def visit_Attribute(self, n):  # noqa: N802
                self.generic_visit(n)
                if n.attr in _HOISTED and isinstance(n.ctx, ast.Load) and isinstance(n.value, ast.Name):
                    return ast.copy_location(ast.Name(id=_HOISTED[n.attr], ctx=ast.Load()), n)
                return n

            def visit_Name(self, n):  # noqa: N802
                if n.id in _HOISTED and isinstance(n.ctx, ast.Load):
                    n.id = _HOISTED[n.id]
                return n

        H().visit(fn)


def normal_form(fn: ast.AST, sigs: typing.Optional[SignatureIndex] = None, owner: typing.Optional[str] = None) -> ast.AST:
    global _ACTIVE_SIGS
    _ACTIVE_SIGS = sigs
    node = ast.parse(ast.unparse(fn)).body[0]  # a private copy without parent links
    strip_meta(node)
    positional_arguments(node, sigs, owner)
    tokenise_hoisted(node, sigs)
    for _ in range(12):
        before = ast.dump(node)
        defs_to_lambdas(node)
        inline_nested_helpers(node)
        strip_meta(node)
        canonical_tests(node)
        boolean_algebra(node)
        canonical_callables(node)
        drop_sticky_flag_tests(node)
        loops_to_comprehensions(node)
        split_chained_assignments(node)
        split_tuple_assignments(node)
        split_validating_loops(node)
        fold_inplace_sort(node)
        unfold_for_else(node)
        unfold_generator_loops(node)
        unfold_next_search(node)
        unfold_product_loops(node)
        sink_returns(node)
        absorb_into_try_else(node)
        flatten_conditionals(node)
        drop_tail_continues(node)
        split_rebound_parameters(node)
        merge_phi_copies(node)
        split_versions(node)
        split_final_rebindings(node)
        split_loop_rebindings(node)
        split_arm_variables(node)
        split_block_rebindings(node)
        sort_independent_assignments(node)
        hoist_nested_defs(node)
        guard = 0
        while inline_temporaries(node, sigs=sigs) and guard < 200:
            guard += 1
        for sub in [x for x in ast.walk(node) if x is not node and isinstance(x, FUNC)]:
            flatten_conditionals(sub)
            split_rebound_parameters(sub)
            guard = 0
            while inline_temporaries(sub, sigs=sigs) and guard < 100:
                guard += 1
        canonical_tests(node)
        for scope in [node] + [x for x in ast.walk(node) if x is not node and isinstance(x, FUNC)]:
            if not any(isinstance(x, ast.Return) and x.value is not None and not (isinstance(x.value, ast.Constant) and x.value.value is None) for x in _own_nodes(scope)):
                drop_tail_returns(scope)
        if ast.dump(node) == before:
            break
    split_scoped_variables(node)
    alpha(node)
    return node


def _own_nodes(fn: ast.AST) -> typing.Iterator[ast.AST]:
    """Nodes of ``fn`` not inside nested functions / lambdas."""
    stack = list(ast.iter_child_nodes(fn))
    while stack:
        n = stack.pop()
        yield n
        if isinstance(n, FUNC + (ast.Lambda, ast.ClassDef)):
            continue
        stack.extend(ast.iter_child_nodes(n))


def nf_text(fn: ast.AST, sigs: typing.Optional[SignatureIndex] = None, owner: typing.Optional[str] = None) -> str:
    node = normal_form(fn, sigs, owner)
    return ast.dump(node, include_attributes=False)


# --------------------------------------------------------------------------------------------------
# module level: substitute the reference spelling for every function proved equivalent to it
# --------------------------------------------------------------------------------------------------
def _outer_functions(tree: ast.AST) -> dict:
    """qualname -> node for functions not nested in another function."""
    out: dict = {}

    def visit(n: ast.AST, prefix: str) -> None:
        for c in ast.iter_child_nodes(n):
            if isinstance(c, ast.ClassDef):
                visit(c, prefix + c.name + '.')
            elif isinstance(c, FUNC):
                key = prefix + c.name
                # property setters / overloads share a name: keep them apart by order
                k = key
                j = 1
                while k in out:
                    j += 1
                    k = f'{key}#{j}'
                out[k] = c
            elif isinstance(c, (ast.If, ast.Try, ast.With)):
                visit(c, prefix)

    visit(tree, '')
    return out


def _shift(node: ast.AST, delta: int) -> None:
    for n in ast.walk(node):
        if hasattr(n, 'lineno'):
            n.lineno += delta
        if hasattr(n, 'end_lineno') and n.end_lineno is not None:
            n.end_lineno += delta


def _all_functions(tree: ast.AST) -> dict:
    """qualname -> node, nested functions included."""
    out: dict = {}

    def visit(n: ast.AST, prefix: str) -> None:
        for c in ast.iter_child_nodes(n):
            if isinstance(c, ast.ClassDef):
                visit(c, prefix + c.name + '.')
            elif isinstance(c, FUNC):
                if prefix + c.name not in out:
                    out[prefix + c.name] = c
                visit(c, prefix + c.name + '.')
            elif isinstance(c, (ast.If, ast.Try, ast.With, ast.For, ast.While)):
                visit(c, prefix)

    visit(tree, '')
    return out


def undo_import_aliases(mod) -> list:
    """``from forml.io import layout as laymod`` re-spelled as ``... as lay``: a module-level import alias that denotes what a
    differently named alias denoted in the reference module (and nothing else uses either name) gets the reference name back
    throughout the module.  Returns [(current alias, reference alias)]."""
    ref_src = pinned_sources().get(mod.name)
    if ref_src is None or ref_src == mod.source:
        return []
    from . import core

    try:
        ref_mod = core.Module.__new__(core.Module)
        ref_mod.name, ref_mod.is_pkg = mod.name, mod.is_pkg
        ref_mod.tree = ast.parse(ref_src)
        ref_imports: dict = {}
        core.Module.record_imports(ref_mod, ref_mod.tree, ref_imports, True)
    except Exception:  # pylint: disable=broad-except
        return []
    cur_imports = dict(mod.imports)
    by_target_ref: dict = {}
    for alias, target in ref_imports.items():
        by_target_ref.setdefault(target, []).append(alias)
    done = []
    top_names = {x.id for x in ast.walk(mod.tree) if isinstance(x, ast.Name)} | {a.arg for x in ast.walk(mod.tree) if isinstance(x, ast.arg) for a in [x]}
    for alias, target in sorted(cur_imports.items()):
        if alias in ref_imports:
            continue
        wanted = [a for a in by_target_ref.get(target, []) if a not in cur_imports]
        if len(wanted) != 1:
            continue
        old = wanted[0]
        if old in top_names:
            continue  # the reference alias now names something else
        # rename: import statements and every load of the alias (locals shadowing the alias would have shadowed it before too)
        shadowed = any(isinstance(x, ast.Name) and x.id == alias and isinstance(x.ctx, (ast.Store, ast.Del)) for x in ast.walk(mod.tree)) or any(isinstance(x, ast.arg) and x.arg == alias for x in ast.walk(mod.tree))
        if shadowed:
            continue
        for x in ast.walk(mod.tree):
            if isinstance(x, ast.Name) and x.id == alias:
                x.id = old
            elif isinstance(x, (ast.Import, ast.ImportFrom)):
                for a in x.names:
                    if (a.asname or a.name) == alias:
                        a.asname = old if old != a.name else None
        done.append((alias, old))
    return done


def _undo_attribute_renames(ref_tree: ast.AST, cur_tree: ast.AST) -> list:
    """A private instance attribute (``self._x``) of a class of the reference tree that is gone, while a new private attribute
    of the same class occurs at exactly the same places (same methods, same sequence of loads and stores), was renamed: it
    gets its reference name back everywhere in that class.  Returns [(new name, 'Class._old')]."""
    def classes(tree: ast.AST) -> dict:
        out: dict = {}

        def visit(n: ast.AST, prefix: str) -> None:
            for c in ast.iter_child_nodes(n):
                if isinstance(c, ast.ClassDef):
                    out[prefix + c.name] = c
                    visit(c, prefix + c.name + '.')
                elif isinstance(c, FUNC):
                    visit(c, prefix + c.name + '.')
                else:
                    visit(c, prefix)

        visit(tree, '')
        return out

    def own_nodes(cls: ast.ClassDef):
        stack = list(ast.iter_child_nodes(cls))
        while stack:
            n = stack.pop()
            if isinstance(n, ast.ClassDef):
                continue
            yield n
            stack.extend(ast.iter_child_nodes(n))

    def private_attrs(cls: ast.ClassDef) -> set:
        return {x.attr for x in own_nodes(cls) if isinstance(x, ast.Attribute) and isinstance(x.value, ast.Name) and x.value.id in ('self', 'cls') and x.attr.startswith('_') and not x.attr.startswith('__')}

    def signature(cls: ast.ClassDef, attr: str) -> tuple:
        out = []
        for fn in sorted((f for f in cls.body if isinstance(f, FUNC)), key=lambda f: f.name):
            seq = tuple(type(x.ctx).__name__ for x in ast.walk(fn) if isinstance(x, ast.Attribute) and x.attr == attr)
            if seq:
                out.append((fn.name, seq))
        return tuple(out)

    done = []
    refc, curc = classes(ref_tree), classes(cur_tree)
    for q, rc in refc.items():
        cc = curc.get(q)
        if cc is None:
            continue
        gone = sorted(private_attrs(rc) - private_attrs(cc))
        new = sorted(private_attrs(cc) - private_attrs(rc))
        if not gone or not new:
            continue
        methods_cur = {f.name for f in cc.body if isinstance(f, FUNC)} | {t.id for st in cc.body if isinstance(st, (ast.Assign, ast.AnnAssign)) for t in (st.targets if isinstance(st, ast.Assign) else [st.target]) if isinstance(t, ast.Name)}
        for g in gone:
            want = signature(rc, g)
            same = [n for n in new if signature(cc, n) == want]
            if len(same) != 1 or not want or g in methods_cur:
                continue
            if any(isinstance(x, ast.Attribute) and x.attr == g for x in own_nodes(cc)):
                continue
            for x in own_nodes(cc):
                if isinstance(x, ast.Attribute) and x.attr == same[0]:
                    x.attr = g
            new.remove(same[0])
            done.append((same[0], f'{q}.{g}'))
    return done


def undo_renames(mod, sigs: typing.Optional[SignatureIndex] = None) -> list:
    """A function of the reference tree that is gone while a new function of the *same scope* has the same normal form
    (its own name aside) was renamed: it gets its reference name back, together with every reference to the new name in the
    module.  Returns [(new name, reference qualname)]."""
    ref_src = pinned_sources().get(mod.name)
    if ref_src is None or ref_src == mod.source:
        return []
    try:
        ref_tree = ast.parse(ref_src)
    except SyntaxError:
        return []
    from . import core

    core.strip_noops(ref_tree)
    ref = _all_functions(ref_tree)
    cur = _all_functions(mod.tree)
    vanished = [q for q in ref if q not in cur]
    fresh = [q for q in cur if q not in ref]
    attrs = _undo_attribute_renames(ref_tree, mod.tree)
    if not vanished or not fresh:
        return attrs

    def anonymous(node: ast.AST) -> str:
        clone = ast.parse(ast.unparse(node)).body[0]
        own = clone.name
        clone.name = '__f__'
        for x in ast.walk(clone):
            if isinstance(x, ast.Name) and x.id == own:
                x.id = '__f__'
            elif isinstance(x, ast.Attribute) and x.attr == own:
                x.attr = '__f__'
        return nf_text(clone, sigs)

    done = []
    for v in vanished:
        scope = v.rpartition('.')[0]
        cands = [q for q in fresh if q.rpartition('.')[0] == scope]
        if not cands:
            continue
        try:
            want = anonymous(ref[v])
            same = [q for q in cands if anonymous(cur[q]) == want]
        except RecursionError:
            continue
        if len(same) != 1:
            continue
        new_name, old_name = cur[same[0]].name, ref[v].name
        if any((isinstance(x, ast.Name) and x.id == old_name) or (isinstance(x, ast.Attribute) and x.attr == old_name) for x in ast.walk(mod.tree)) and not old_name.startswith('_'):
            continue  # the reference name is in use for something else
        cur[same[0]].name = old_name
        for x in ast.walk(mod.tree):
            if isinstance(x, ast.Name) and x.id == new_name:
                x.id = old_name
            elif isinstance(x, ast.Attribute) and x.attr == new_name:
                x.attr = old_name
            elif isinstance(x, ast.keyword) and x.arg == new_name:
                pass
        fresh.remove(same[0])
        done.append((new_name, v))
    return done + attrs


def substitute_equivalent(mod, sigs: typing.Optional[SignatureIndex] = None) -> list:
    """For every function of ``mod`` whose text differs from the reference tree but whose normal form equals the normal form
    of the reference function: put the reference function (re-positioned at the current one's line) into the module tree.
    Returns the qualnames substituted."""
    ref_src = pinned_sources().get(mod.name)
    if ref_src is None or ref_src == mod.source:
        return []
    try:
        ref_tree = ast.parse(ref_src)
    except SyntaxError:
        return []
    from . import core

    core.strip_noops(ref_tree)
    cur = _outer_functions(mod.tree)
    ref = _outer_functions(ref_tree)
    _ACTIVE_IMPORTS.clear()
    _ACTIVE_IMPORTS.update(mod.imports)
    _HOISTED.clear()
    import hashlib

    for qual, node in cur.items():
        if qual in ref or '#' in qual:
            continue
        par = getattr(node, '_parent', None)
        static = any(isinstance(d, ast.Name) and d.id == 'staticmethod' for d in node.decorator_list)
        others = [d for d in node.decorator_list if not (isinstance(d, ast.Name) and d.id == 'staticmethod')]
        if others or (isinstance(par, ast.ClassDef) and not static):
            continue
        plain = [st for st in node.body if not _is_noop(st)]
        if len(plain) == 1 and isinstance(plain[0], ast.Return):
            continue
        try:
            _HOISTED[node.name] = '__hoisted_' + hashlib.sha256(_anonymous_text(node, sigs).encode()).hexdigest()[:12]
        except RecursionError:
            pass
    done = []
    for qual, node in cur.items():
        want = ref.get(qual)
        if want is None:
            continue
        if ast.dump(node) == ast.dump(want):
            continue
        try:
            owner = qual.split('.')[-2] if '.' in qual else None
            same = nf_text(node, sigs, owner) == nf_text(want, sigs, owner)
        except RecursionError:
            same = False
        if not same:
            continue
        new = copy.deepcopy(want)
        _shift(new, node.lineno - want.lineno)
        parent = getattr(node, '_parent', None)
        for f in _BLOCKS:
            seq = getattr(parent, f, None)
            if isinstance(seq, list):
                for i, x in enumerate(seq):
                    if x is node:
                        seq[i] = new
        done.append(qual)
    return done
