"""./check <property> [--tier quick|thorough] [--repo PATH] [--replay FILE]"""
from __future__ import annotations

import argparse
import importlib
import json
import os
import sys
import time
import traceback

from . import core, report


def run_rules(prop: str, repo: str, tier: str) -> report.Context:
    """Run the property's rules over the tree at ``repo``; raises core.AnalysisError when undecidable."""
    prog = core.Program(repo)
    ctx = report.Context(prop, prog, tier)
    mod = importlib.import_module(f'fv.rules.{prop}')
    ctx.analysis_error = None
    try:
        mod.run(ctx)
        if tier == 'thorough' and hasattr(mod, 'thorough'):
            mod.thorough(ctx)
    except core.AnalysisError as err:
        # the rules that ran before the analysis stopped stand on their own: their findings are reported (cli.main); only a
        # run without any finding is "cannot decide"
        ctx.analysis_error = str(err)
    except MemoryError:
        raise
    except Exception:  # pylint: disable=broad-except
        ctx.analysis_error = 'checker crashed: ' + traceback.format_exc(limit=6)
    return ctx


def _watchdog(prop: str) -> None:
    """A check that does not terminate (or eats the machine) is broken, not a verdict: bound time and address space and
    report it as an analysis error."""
    import resource
    import signal

    limit = int(os.environ.get('FV_TIMEOUT', '1500'))

    def expired(signum, frame):  # pylint: disable=unused-argument
        print(f'ANALYSIS-ERROR property={prop}: analysis did not finish within {limit}s')
        os._exit(2)  # pylint: disable=protected-access

    try:
        signal.signal(signal.SIGALRM, expired)
        signal.alarm(limit)
        soft = int(os.environ.get('FV_MEMORY_GB', '12')) * 1024 ** 3
        hard = resource.getrlimit(resource.RLIMIT_AS)[1]
        if hard == resource.RLIM_INFINITY or soft < hard:
            resource.setrlimit(resource.RLIMIT_AS, (soft, hard))
    except (ValueError, OSError):  # not the main thread / not permitted: run unguarded
        pass


def main(argv=None) -> int:
    ap = argparse.ArgumentParser(prog='check')
    ap.add_argument('property')
    ap.add_argument('--tier', default=os.environ.get('VERIF_TIER', 'quick'), choices=['quick', 'thorough'])
    ap.add_argument('--repo', default=os.environ.get('VERIF_REPO', '/repo'))
    ap.add_argument('--replay')
    ap.add_argument('--no-selftest', action='store_true')
    args = ap.parse_args(argv)
    started = time.time()
    seed = int(os.environ.get('VERIF_SEED', '0') or 0)
    _watchdog(args.property)
    prop = args.property
    try:
        mod = importlib.import_module(f'fv.rules.{prop}')
    except ModuleNotFoundError:
        print(f'ANALYSIS-ERROR property={prop}: no rules implemented')
        return 2
    try:
        ctx = run_rules(prop, args.repo, args.tier)
        extra = {}
        if ctx.analysis_error is not None:
            if report.new_findings(ctx):
                rc = report.finish(ctx, started, seed, mod.EXPLANATION, list(getattr(mod, 'ASSUMPTIONS', [])), {'analysis_stopped': ctx.analysis_error[:400]})
                if ctx.analysis_error.startswith('checker crashed'):
                    print(ctx.analysis_error)
                print(f'ANALYSIS-NOTE property={prop}: the analysis stopped early ({ctx.analysis_error.splitlines()[0][:200]}); the violations above were established before that')
                return rc
            if ctx.analysis_error.startswith('checker crashed'):
                print(ctx.analysis_error)
                print(f'ANALYSIS-ERROR property={prop}: checker crashed (traceback above)')
            else:
                print(f'ANALYSIS-ERROR property={prop}: {ctx.analysis_error}')
            return 2
        if args.replay:
            with open(args.replay, encoding='utf-8') as fh:
                want = json.load(fh)
            hits = [f for f in ctx.findings if f.rule == want['rule'] and f.where == want['function'] and f.key == want['key']]
            print(json.dumps(want, indent=1))
            print(f'REPLAY: instance {"still reported" if hits else "no longer reported"} on {args.repo}')
            for f in hits:
                print(f'  {f.rule} {f.loc} in {f.where}: {f.message}')
            return 1 if hits else 0
        if args.tier == 'thorough' and not args.no_selftest:
            from selftest import run as strun

            res = strun.run_property(prop, args.repo)
            extra['selftest'] = res
            if res['failed']:
                for line in res['failures'][:40]:
                    print('SELFTEST-FAIL', line)
                print(f'ANALYSIS-ERROR property={prop}: checker self-test failed ({res["failed"]} of {res["total"]})')
                return 2
        return report.finish(ctx, started, seed, mod.EXPLANATION, list(getattr(mod, 'ASSUMPTIONS', [])), extra)
    except core.AnalysisError as err:
        print(f'ANALYSIS-ERROR property={prop}: {err}')
        return 2
    except MemoryError:
        print(f'ANALYSIS-ERROR property={prop}: analysis ran out of memory')
        return 2
    except Exception:  # a crash of the checker is never a verdict on the property
        traceback.print_exc()
        print(f'ANALYSIS-ERROR property={prop}: checker crashed (traceback above)')
        return 2


if __name__ == '__main__':
    sys.exit(main())
