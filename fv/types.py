"""A deliberately small type environment recovered from the repository's own annotations.

Types are tuples:  ('cls', ref) instance of an in-repo class | ('type', ref) the class object | ('opt', T) |
('union', (T, ...)) | ('seq', T) | ('map', K, V) | ('alias', 'module:NAME') module-level type alias / TypeVar |
('ext', dotted) external | None = unknown (rules never fire on unknown).
"""
from __future__ import annotations

import ast
import typing

from . import core

SEQ_NAMES = {
    'Sequence', 'Iterable', 'Iterator', 'Collection', 'List', 'Set', 'FrozenSet', 'AbstractSet', 'MutableSequence',
    'list', 'set', 'frozenset', 'Generator', 'Deque',
}
MAP_NAMES = {'Mapping', 'MutableMapping', 'Dict', 'dict', 'DefaultDict', 'OrderedDict'}


def opt(t):
    return t is not None and t[0] == 'opt'


def strip_opt(t):
    return t[1] if opt(t) else t


class TypeEnv:
    def __init__(self, prog: core.Program):
        self.prog = prog
        self._locals_cache: dict[str, dict[str, typing.Any]] = {}

    # ---- annotations ---------------------------------------------------------------------------
    def from_annotation(self, node: typing.Optional[ast.AST], module: core.Module, scope: str = '', _d: int = 0):
        if node is None or _d > 8:
            return None
        if isinstance(node, ast.Constant):
            if node.value is None:
                return ('ext', 'None')
            if isinstance(node.value, str):
                try:
                    inner = ast.parse(node.value.strip(), mode='eval').body
                except SyntaxError:
                    return None
                return self.from_annotation(inner, module, scope, _d + 1)
            return None
        if isinstance(node, ast.BinOp) and isinstance(node.op, ast.BitOr):
            parts = [self.from_annotation(node.left, module, scope, _d + 1), self.from_annotation(node.right, module, scope, _d + 1)]
            return self._union(parts)
        if isinstance(node, ast.Subscript):
            base = core.dotted(node.value) or ''
            last = base.split('.')[-1]
            sl = node.slice
            args = list(sl.elts) if isinstance(sl, ast.Tuple) else [sl]
            if last == 'Optional':
                inner = self.from_annotation(args[0], module, scope, _d + 1)
                return ('opt', inner) if inner is not None else ('opt', None)
            if last == 'Union':
                return self._union([self.from_annotation(a, module, scope, _d + 1) for a in args])
            if last in SEQ_NAMES:
                return ('seq', self.from_annotation(args[0], module, scope, _d + 1))
            if last in ('tuple', 'Tuple'):
                if len(args) == 2 and isinstance(args[1], ast.Constant) and args[1].value is Ellipsis:
                    return ('seq', self.from_annotation(args[0], module, scope, _d + 1))
                return ('tuple', tuple(self.from_annotation(a, module, scope, _d + 1) for a in args))
            if last in MAP_NAMES and len(args) == 2:
                return ('map', self.from_annotation(args[0], module, scope, _d + 1), self.from_annotation(args[1], module, scope, _d + 1))
            if last in ('type', 'Type'):
                inner = self.from_annotation(args[0], module, scope, _d + 1)
                return ('type', inner[1]) if inner and inner[0] == 'cls' else None
            if last in ('ClassVar', 'Final', 'Annotated'):
                return self.from_annotation(args[0], module, scope, _d + 1)
            # generic in-repo class: Foo[X]
            return self.from_annotation(node.value, module, scope, _d + 1)
        name = core.dotted(node)
        if name is None:
            return None
        if name in ('None',):
            return ('ext', 'None')
        res = self.prog.resolve(module, name, scope=scope)
        if isinstance(res, core.ClassInfo):
            return ('cls', res.ref)
        if isinstance(res, tuple) and res and res[0] == 'assign':
            _, mod, val = res
            # TypeVar / alias at module level
            for aname, anode in mod.assigns.items():
                if anode is val:
                    return ('alias', f'{mod.name}:{aname}')
            return None
        if isinstance(res, str):
            # façade paths that do not exist statically (e.g. 'dsl.Statement.Prepared' for the class nested in this
            # module's Statement): accept a *unique* class of the same module whose qualname ends with the last two parts
            parts = name.split('.')
            if len(parts) >= 2:
                tail = '.'.join(parts[-2:])
                cands = [c for c in self.prog.classes.values() if c.module is module and (c.qual == tail or c.qual.endswith('.' + tail))]
                if len(cands) == 1:
                    return ('cls', cands[0].ref)
            return ('ext', res)
        return None

    @staticmethod
    def _union(parts):
        parts = [p for p in parts]
        nones = [p for p in parts if p == ('ext', 'None')]
        rest = [p for p in parts if p != ('ext', 'None')]
        inner = rest[0] if len(rest) == 1 else ('union', tuple(rest))
        return ('opt', inner) if nones else inner

    # ---- attribute types -----------------------------------------------------------------------
    def attr_type(self, t, attr: str):
        t = strip_opt(t)
        if t is None:
            return None
        if t[0] == 'union':
            res = {self.attr_type(x, attr) for x in t[1]}
            return res.pop() if len(res) == 1 else None
        if t[0] not in ('cls', 'type'):
            return None
        ci = self.prog.classes.get(t[1])
        if ci is None:
            return None
        ann = ci.annotation(attr)
        if ann is not None:
            owner, node = ann
            return self.from_annotation(node, owner.module, owner.qual)
        found = ci.lookup(attr)
        if found is None:
            return self._instance_attr(ci, attr)
        owner, node = found
        if isinstance(node, core.FUNC):
            decos = core.decorator_names(node)
            if any(d.split('.')[-1] in ('property', 'cached_property') for d in decos):
                return self.from_annotation(node.returns, owner.module, owner.qual)
            return ('method', owner.ref, attr)
        if isinstance(node, ast.ClassDef):
            return ('type', f'{owner.module.name}:{owner.qual}.{attr}')
        return None

    def _instance_attr(self, ci: core.ClassInfo, attr: str):
        """Type of an instance attribute declared as ``self.<attr>: <annotation> = ...`` in a method (usually __init__)."""
        key = f'#iattr:{ci.ref}'
        if key not in self._locals_cache:
            table = {}
            for c in reversed(ci.mro_classes()):
                for m in c.methods.values():
                    for n in ast.walk(m):
                        if isinstance(n, ast.AnnAssign) and isinstance(n.target, ast.Attribute) and isinstance(n.target.value, ast.Name) and n.target.value.id == 'self':
                            ty = self.from_annotation(n.annotation, c.module, c.qual)
                            if ty is not None:
                                table[n.target.attr] = ty
            self._locals_cache[key] = table
        return self._locals_cache[key].get(attr)

    def call_type(self, fn: core.FuncInfo, call: ast.Call, env: dict):
        tgt = call.func
        if isinstance(tgt, ast.Attribute):
            base = self.expr_type(fn, tgt.value, env)
            if base is not None:
                at = self.attr_type(base, tgt.attr)
                if at and at[0] == 'method':
                    ci = self.prog.classes[at[1]]
                    node = ci.methods[at[2]]
                    return self.from_annotation(node.returns, ci.module, ci.qual)
                if at and at[0] == 'type':
                    return ('cls', at[1])
        res = self.prog.resolve_expr(fn, tgt)
        if isinstance(res, core.ClassInfo):
            return ('cls', res.ref)
        if isinstance(res, core.FuncInfo):
            return self.from_annotation(res.node.returns, res.module, res.qual)  # type: ignore[attr-defined]
        return None

    # ---- expressions ---------------------------------------------------------------------------
    def expr_type(self, fn: core.FuncInfo, node: ast.AST, env: typing.Optional[dict] = None, _d: int = 0):
        if _d > 10:
            return None
        env = env if env is not None else self.locals(fn)
        if isinstance(node, ast.Name):
            return env.get(node.id)
        if isinstance(node, ast.Attribute):
            base = self.expr_type(fn, node.value, env, _d + 1)
            if base is not None:
                t = self.attr_type(base, node.attr)
                if t is not None and t[0] != 'method':
                    return t
            return None
        if isinstance(node, ast.Call):
            return self.call_type(fn, node, env)
        if isinstance(node, ast.Subscript):
            base = strip_opt(self.expr_type(fn, node.value, env, _d + 1))
            if base and base[0] == 'seq' and not isinstance(node.slice, ast.Slice):
                return base[1]
            if base and base[0] == 'map':
                return base[2]
            if base and base[0] == 'cls' and not isinstance(node.slice, ast.Slice):
                # an in-repo class with an annotated __getitem__
                at = self.attr_type(base, '__getitem__')
                if at and at[0] == 'method':
                    ci = self.prog.classes[at[1]]
                    return self.from_annotation(ci.methods[at[2]].returns, ci.module, ci.qual)
            return None
        if isinstance(node, ast.IfExp):
            a, b = self.expr_type(fn, node.body, env, _d + 1), self.expr_type(fn, node.orelse, env, _d + 1)
            return a if a == b else None
        if isinstance(node, ast.NamedExpr):
            return self.expr_type(fn, node.value, env, _d + 1)
        return None

    def locals(self, fn: core.FuncInfo) -> dict:
        """Flow-insensitive local environment: parameters, then single-typed assignments and loop targets.
        A name assigned values of different (known/unknown) types becomes unknown."""
        if fn.ref in self._locals_cache:
            return self._locals_cache[fn.ref]
        env: dict[str, typing.Any] = {}
        self._locals_cache[fn.ref] = env
        # closures see the enclosing function's environment
        outer_ref = fn.ref.rsplit('.', 1)[0]
        if self.prog.has_func(outer_ref):
            env.update(self.locals(self.prog.func(outer_ref)))
        cls = fn.cls
        params = fn.params
        decos = core.decorator_names(fn.node)
        for i, p in enumerate(params):
            t = self.from_annotation(p.annotation, fn.module, fn.qual)
            if t is None and i == 0 and cls is not None and fn.qual.rsplit('.', 1)[0] == cls.qual:
                if 'staticmethod' in decos:
                    pass
                elif 'classmethod' in decos or fn.name in ('__new__', '__init_subclass__'):
                    t = ('type', cls.ref)
                else:
                    t = ('cls', cls.ref)
            a = fn.node.args  # type: ignore[attr-defined]
            if a.vararg is p and t is not None:
                t = ('seq', t)
            if a.kwarg is p and t is not None:
                t = ('map', ('ext', 'str'), t)
            env[p.arg] = t
        assigned: dict[str, list] = {}

        def bind(target: ast.AST, t) -> None:
            if isinstance(target, ast.Name):
                assigned.setdefault(target.id, []).append(t)
            elif isinstance(target, (ast.Tuple, ast.List)):
                for i, e in enumerate(target.elts):
                    et = None
                    if t and t[0] == 'tuple' and i < len(t[1]):
                        et = t[1][i]
                    elif t and t[0] == 'seq':
                        et = t[1]
                    bind(e, et)

        for _ in range(2):  # two rounds so that chains x = p; y = x.attr resolve
            assigned.clear()
            for node in core.walk_local(fn.node):
                if isinstance(node, ast.Assign):
                    t = self.expr_type(fn, node.value, env)
                    for tg in node.targets:
                        bind(tg, t)
                elif isinstance(node, ast.AnnAssign) and isinstance(node.target, ast.Name):
                    assigned.setdefault(node.target.id, []).append(self.from_annotation(node.annotation, fn.module, fn.qual))
                elif isinstance(node, ast.AugAssign) and isinstance(node.target, ast.Name):
                    assigned.setdefault(node.target.id, []).append(None)
                elif isinstance(node, (ast.For, ast.AsyncFor)):
                    self._bind_iter(fn, node.target, node.iter, env, bind)
                elif isinstance(node, ast.comprehension):
                    self._bind_iter(fn, node.target, node.iter, env, bind)
                elif isinstance(node, ast.NamedExpr):
                    bind(node.target, self.expr_type(fn, node.value, env))
                elif isinstance(node, (ast.With, ast.AsyncWith)):
                    for item in node.items:
                        if item.optional_vars is not None:
                            bind(item.optional_vars, None)
                elif isinstance(node, ast.ExceptHandler) and node.name:
                    assigned.setdefault(node.name, []).append(None)
            pnames = set(fn.param_names)
            for name, ts in assigned.items():
                if name in pnames:
                    # a re-assigned parameter keeps its declared type only if every assignment agrees
                    if any(t != env.get(name) for t in ts):
                        env[name] = None if any(t is None for t in ts) else env.get(name)
                    continue
                uniq = {t for t in ts}
                env[name] = ts[0] if len(uniq) == 1 else None
        return env

    def bool_contexts(self, fn: core.FuncInfo) -> list:
        key = '#bool:' + fn.ref
        if key not in self._locals_cache:
            self._locals_cache[key] = list(bool_contexts(fn.node))
        return self._locals_cache[key]

    def _bind_iter(self, fn, target, it, env, bind) -> None:
        if isinstance(it, ast.Call) and core.call_name(it) == 'enumerate' and it.args:
            inner = strip_opt(self.expr_type(fn, it.args[0], env))
            et = inner[1] if inner and inner[0] == 'seq' else None
            bind(target, ('tuple', (('ext', 'int'), et)))
            return
        if isinstance(it, ast.Call) and core.call_name(it) == 'zip':
            parts = []
            for a in it.args:
                inner = strip_opt(self.expr_type(fn, a, env))
                parts.append(inner[1] if inner and inner[0] == 'seq' else None)
            bind(target, ('tuple', tuple(parts)))
            return
        if isinstance(it, ast.Call) and isinstance(it.func, ast.Attribute) and it.func.attr in ('items',) and not it.args:
            inner = strip_opt(self.expr_type(fn, it.func.value, env))
            if inner and inner[0] == 'map':
                bind(target, ('tuple', (inner[1], inner[2])))
                return
        inner = strip_opt(self.expr_type(fn, it, env))
        bind(target, inner[1] if inner and inner[0] == 'seq' else None)


# --------------------------------------------------------------------------------------------------
# boolean contexts
# --------------------------------------------------------------------------------------------------
def bool_contexts(root: ast.AST) -> typing.Iterator[tuple[ast.AST, str, ast.AST]]:
    """Yield (expr, kind, owner) for every expression whose *truth value* is taken inside ``root`` (nested defs
    excluded).  ``x is None`` / comparisons / isinstance are ordinary expressions: their operands are not yielded."""

    def emit(expr: ast.AST, kind: str, owner: ast.AST):
        # peel: not x -> x ; a and b -> a, b ; (x := y)
        if isinstance(expr, ast.UnaryOp) and isinstance(expr.op, ast.Not):
            yield from emit(expr.operand, 'not', owner)
        elif isinstance(expr, ast.BoolOp):
            for v in expr.values:
                yield from emit(v, 'boolop', owner)
        else:
            yield expr, kind, owner

    for node in core.walk_local(root):
        if isinstance(node, (ast.If, ast.While)):
            yield from emit(node.test, 'if', node)
        elif isinstance(node, ast.IfExp):
            yield from emit(node.test, 'ifexp', node)
        elif isinstance(node, ast.Assert):
            yield from emit(node.test, 'assert', node)
        elif isinstance(node, ast.comprehension):
            for c in node.ifs:
                yield from emit(c, 'comp-if', node)
        elif isinstance(node, ast.BoolOp):
            par = core.parent(node)
            in_bool = isinstance(par, (ast.If, ast.While, ast.IfExp, ast.Assert)) and getattr(par, 'test', None) is node
            in_bool = in_bool or isinstance(par, ast.BoolOp) or (isinstance(par, ast.UnaryOp) and isinstance(par.op, ast.Not))
            if not in_bool:
                # value context: every operand but the last is truth-tested
                for v in node.values[:-1]:
                    yield from emit(v, 'boolop-value', node)
        elif isinstance(node, ast.UnaryOp) and isinstance(node.op, ast.Not):
            par = core.parent(node)
            in_bool = isinstance(par, (ast.If, ast.While, ast.IfExp, ast.Assert, ast.BoolOp, ast.UnaryOp))
            if not in_bool:
                yield from emit(node.operand, 'not', node)
        elif isinstance(node, ast.Call) and core.call_name(node) == 'bool' and len(node.args) == 1:
            yield from emit(node.args[0], 'bool()', node)
        elif isinstance(node, ast.Call) and core.call_name(node) == 'filter' and len(node.args) == 2:
            # filter(None, (a, b)) / filter(bool, [a, b]) truth-tests every element
            pred = node.args[0]
            if core.is_const(pred, None) or core.dotted(pred) in ('bool', 'operator.truth'):
                seq = node.args[1]
                if isinstance(seq, (ast.Tuple, ast.List, ast.Set)):
                    for e in seq.elts:
                        yield from emit(e, 'filter(None)', node)
        elif isinstance(node, ast.Call) and core.call_name(node) in ('any', 'all') and len(node.args) == 1:
            seq = node.args[0]
            if isinstance(seq, (ast.Tuple, ast.List, ast.Set)):
                for e in seq.elts:
                    yield from emit(e, core.call_name(node) + '()', node)
